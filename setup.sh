#!/bin/bash
# Builds the framework from files on disk only (offline). Run once after a fresh restore.
set -e
cd "$(dirname "$0")"
export CARGO_NET_OFFLINE=true TZ=UTC
export RUSTFLAGS="${RUSTFLAGS:-} --cfg desert_verif"
export CARGO_TARGET_DIR=$PWD/.target
mkdir -p evidence replays
cd harness
cargo build --offline --release -p vgen
"$CARGO_TARGET_DIR/release/vgen" --out universe
"$CARGO_TARGET_DIR/release/vgen" --thorough --out universe
cargo build --offline --release -p vcheck
cargo build --offline --profile plain -p vcheck
( cd ../sched && CARGO_TARGET_DIR=$PWD/../.target-sched cargo build --offline --release )
echo "setup done"
