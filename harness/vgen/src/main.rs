//! Generator: turns the abstract universe of `refmodel::spec` into Rust text (derive declarations
//! with their `Bridge` impls, and the table of monomorphic entry points).
use refmodel::spec::{self, Decl};
use refmodel::*;
use std::fmt::Write;

fn rust_ty(t: &Ty) -> String {
    match t {
        Ty::U8 => "u8".into(),
        Ty::I8 => "i8".into(),
        Ty::U16 => "u16".into(),
        Ty::I16 => "i16".into(),
        Ty::U32 => "u32".into(),
        Ty::I32 => "i32".into(),
        Ty::U64 => "u64".into(),
        Ty::I64 => "i64".into(),
        Ty::Bool => "bool".into(),
        Ty::Unit => "()".into(),
        Ty::Str => "String".into(),
        Ty::DedupStr => "desert::DeduplicatedString".into(),
        Ty::ByteVec => "Vec<u8>".into(),
        Ty::ByteArray(n) => format!("[u8; {n}]"),
        Ty::Array(n, t) => format!("[{}; {n}]", rust_ty(t)),
        Ty::Tuple(ts) => format!("({},)", ts.iter().map(rust_ty).collect::<Vec<_>>().join(", ")),
        Ty::Opt(t) => match &**t {
            Ty::Named(n) => format!("Option<Box<{n}>>"),
            o => format!("Option<{}>", rust_ty(o)),
        },
        Ty::Seq(SeqKind::Vec, t) => format!("Vec<{}>", rust_ty(t)),
        Ty::Record(rd) => rd.name.clone(),
        Ty::Enum(ed) => ed.name.clone(),
        Ty::Named(n) => n.clone(),
        other => panic!("vgen: no Rust spelling for {other:?}"),
    }
}

fn field_ty(f: &FieldDescr, spelling: u8) -> String {
    match &f.ty {
        Ty::Opt(inner) if !f.is_option => format!("OptAlias<{}>", rust_ty(inner)),
        Ty::Opt(inner) => {
            let inner = match &**inner {
                Ty::Named(n) => format!("Box<{n}>"),
                o => rust_ty(o),
            };
            match spelling {
                1 => format!("std::option::Option<{inner}>"),
                2 => format!("core::option::Option<{inner}>"),
                3 => format!("(Option<{inner}>)"),
                _ => format!("Option<{inner}>"),
            }
        }
        t if spelling == 3 => format!("({})", rust_ty(t)),
        t => rust_ty(t),
    }
}

fn rust_expr(t: &Ty, v: &Val) -> String {
    match (t, v) {
        (Ty::U8, Val::U(x)) => format!("{x}u8"),
        (Ty::U16, Val::U(x)) => format!("{x}u16"),
        (Ty::U32, Val::U(x)) => format!("{x}u32"),
        (Ty::U64, Val::U(x)) => format!("{x}u64"),
        (Ty::I32, Val::I(x)) => format!("{x}i32"),
        (Ty::Bool, Val::Bool(b)) => format!("{b}"),
        (Ty::Unit, _) => "()".into(),
        (Ty::Str, Val::Str(s)) => format!("{s:?}.to_string()"),
        (Ty::DedupStr, Val::Str(s)) => format!("desert::DeduplicatedString({s:?}.to_string())"),
        (Ty::ByteVec, Val::Bytes(b)) => format!("vec![{}]", b.iter().map(|x| format!("{x}u8")).collect::<Vec<_>>().join(", ")),
        (Ty::ByteArray(_), Val::Bytes(b)) => {
            format!("[{}]", b.iter().map(|x| format!("{x}u8")).collect::<Vec<_>>().join(", "))
        }
        (Ty::Array(_, t), Val::Seq(xs)) => format!("[{}]", xs.iter().map(|x| rust_expr(t, x)).collect::<Vec<_>>().join(", ")),
        (Ty::Seq(SeqKind::Vec, t), Val::Seq(xs)) => {
            format!("vec![{}]", xs.iter().map(|x| rust_expr(t, x)).collect::<Vec<_>>().join(", "))
        }
        (Ty::Tuple(ts), Val::Tuple(xs)) => {
            format!("({},)", ts.iter().zip(xs).map(|(t, x)| rust_expr(t, x)).collect::<Vec<_>>().join(", "))
        }
        (Ty::Opt(_), Val::Opt(None)) => "None".into(),
        (Ty::Opt(t), Val::Opt(Some(x))) => format!("Some({})", rust_expr(t, x)),
        (Ty::Record(rd), Val::Rec(xs)) => {
            if rd.fields.is_empty() {
                format!("{} {{}}", rd.name)
            } else {
                let fs: Vec<String> =
                    rd.fields.iter().zip(xs).map(|(f, x)| format!("{}: {}", f.name, rust_expr(&f.ty, x))).collect();
                format!("{} {{ {} }}", rd.name, fs.join(", "))
            }
        }
        (Ty::Enum(ed), Val::Enum(i, xs)) => {
            let var = &ed.variants[*i];
            match var.shape {
                0 => format!("{}::{}", ed.name, var.name),
                1 => format!(
                    "{}::{}({})",
                    ed.name,
                    var.name,
                    var.record.fields.iter().zip(xs).map(|(f, x)| rust_expr(&f.ty, x)).collect::<Vec<_>>().join(", ")
                ),
                _ => format!(
                    "{}::{} {{ {} }}",
                    ed.name,
                    var.name,
                    var.record
                        .fields
                        .iter()
                        .zip(xs)
                        .map(|(f, x)| format!("{}: {}", f.name, rust_expr(&f.ty, x)))
                        .collect::<Vec<_>>()
                        .join(", ")
                ),
            }
        }
        (t, v) => panic!("vgen: no Rust literal for {v:?} : {t:?}"),
    }
}

fn transient_attr(f: &FieldDescr) -> String {
    match &f.transient {
        Some(d) => format!("#[transient({})] ", rust_expr(&f.ty, d)),
        None => String::new(),
    }
}

fn evolution_attr(rd: &RecordDescr) -> String {
    if rd.steps.is_empty() {
        return String::new();
    }
    let mut parts = Vec::new();
    for s in &rd.steps {
        parts.push(match s {
            Step::Added(n) => {
                // the default is an expression of the field's *current* type
                let f = rd.fields.iter().find(|f| &f.name == n);
                let d = match f {
                    Some(f) => rust_expr(&f.ty, f.default.as_ref().expect("added field default")),
                    // the added field was removed again later: any expression will do
                    None => "()".to_string(),
                };
                format!("FieldAdded({n:?}, {d})")
            }
            Step::MadeOptional(n) => format!("FieldMadeOptional({n:?})"),
            Step::Removed(n) => format!("FieldRemoved({n:?})"),
            Step::MadeTransient(n) => format!("FieldMadeTransient({n:?})"),
        });
    }
    format!("#[evolution({})]\n", parts.join(", "))
}

fn emit_struct(d: &Decl, rd: &RecordDescr, out: &mut String) {
    let name = &d.name;
    if d.opt_spelling == 4 && !d.tags.contains(&"unit") {
        // declared through a macro: field types are `ty` fragments
        writeln!(out, "macro_rules! decl_{name} {{ ($( $(#[$m:meta])* $f:ident : $t:ty ),* $(,)?) => {{").unwrap();
        writeln!(out, "#[derive(desert::BinaryCodec)]").unwrap();
        out.push_str(&evolution_attr(rd));
        writeln!(out, "pub struct {name} {{ $( $(#[$m])* pub $f: $t, )* }}").unwrap();
        writeln!(out, "}} }}").unwrap();
        writeln!(out, "decl_{name}! {{").unwrap();
        for f in &rd.fields {
            if let Some(dv) = &f.transient {
                writeln!(out, "    #[transient({})]", rust_expr(&f.ty, dv)).unwrap();
            }
            writeln!(out, "    {}: {},", f.name, field_ty(f, 0)).unwrap();
        }
        writeln!(out, "}}").unwrap();
    } else {
    writeln!(out, "#[derive(desert::BinaryCodec)]").unwrap();
    out.push_str(&evolution_attr(rd));
    if d.tags.contains(&"unit") {
        writeln!(out, "pub struct {name};").unwrap();
    } else {
        writeln!(out, "pub struct {name} {{").unwrap();
        for f in &rd.fields {
            if let Some(dv) = &f.transient {
                writeln!(out, "    #[transient({})]", rust_expr(&f.ty, dv)).unwrap();
            }
            writeln!(out, "    pub {}: {},", f.name, field_ty(f, d.opt_spelling)).unwrap();
        }
        writeln!(out, "}}").unwrap();
    }
    }
    writeln!(out, "impl Bridge for {name} {{").unwrap();
    writeln!(out, "    fn ty() -> Ty {{ refmodel::spec::decl_ty({name:?}, THOROUGH) }}").unwrap();
    let tv: Vec<String> = rd.fields.iter().map(|f| format!("self.{}.to_val()", f.name)).collect();
    writeln!(out, "    fn to_val(&self) -> Val {{ Val::Rec(vec![{}]) }}", tv.join(", ")).unwrap();
    if d.tags.contains(&"unit") {
        writeln!(out, "    fn from_val(_: &Val) -> Self {{ {name} }}").unwrap();
    } else {
        let fv: Vec<String> =
            rd.fields.iter().enumerate().map(|(i, f)| format!("{}: Bridge::from_val(&f[{i}])", f.name)).collect();
        writeln!(out, "    fn from_val(v: &Val) -> Self {{ let f = v.items(); {name} {{ {} }} }}", fv.join(", ")).unwrap();
    }
    writeln!(out, "}}\n").unwrap();
}

fn emit_enum(d: &Decl, ed: &EnumDescr, out: &mut String) {
    let name = &d.name;
    writeln!(out, "#[derive(desert::BinaryCodec)]").unwrap();
    if ed.sorted {
        writeln!(out, "#[sorted_constructors]").unwrap();
    }
    writeln!(out, "pub enum {name} {{").unwrap();
    for v in &ed.variants {
        if v.transient {
            writeln!(out, "    #[transient]").unwrap();
        }
        let ev = evolution_attr(&v.record);
        if !ev.is_empty() {
            write!(out, "    {ev}").unwrap();
        }
        match v.shape {
            0 if d.tags.contains(&"discriminants") => {
                let k = ed.variants.iter().position(|x| x.name == v.name).unwrap();
                writeln!(out, "    {} = {},", v.name, 5 * k + 1).unwrap()
            }
            0 => writeln!(out, "    {},", v.name).unwrap(),
            1 => writeln!(
                out,
                "    {}({}),",
                v.name,
                v.record.fields.iter().map(|f| format!("{}{}", transient_attr(f), field_ty(f, 1))).collect::<Vec<_>>().join(", ")
            )
            .unwrap(),
            _ => writeln!(
                out,
                "    {} {{ {} }},",
                v.name,
                v.record.fields.iter().map(|f| format!("{}{}: {}", transient_attr(f), f.name, field_ty(f, 0))).collect::<Vec<_>>().join(", ")
            )
            .unwrap(),
        }
    }
    writeln!(out, "}}").unwrap();
    writeln!(out, "impl Bridge for {name} {{").unwrap();
    writeln!(out, "    fn ty() -> Ty {{ refmodel::spec::decl_ty({name:?}, THOROUGH) }}").unwrap();
    writeln!(out, "    fn to_val(&self) -> Val {{ match self {{").unwrap();
    for (i, v) in ed.variants.iter().enumerate() {
        let names: Vec<String> = v.record.fields.iter().map(|f| f.name.clone()).collect();
        let vals: Vec<String> = names.iter().map(|n| format!("{n}.to_val()")).collect();
        match v.shape {
            0 => writeln!(out, "        {name}::{} => Val::Enum({i}, vec![]),", v.name).unwrap(),
            1 => writeln!(out, "        {name}::{}({}) => Val::Enum({i}, vec![{}]),", v.name, names.join(", "), vals.join(", "))
                .unwrap(),
            _ => writeln!(out, "        {name}::{} {{ {} }} => Val::Enum({i}, vec![{}]),", v.name, names.join(", "), vals.join(", "))
                .unwrap(),
        }
    }
    writeln!(out, "    }} }}").unwrap();
    writeln!(out, "    fn from_val(v: &Val) -> Self {{ match v {{").unwrap();
    for (i, v) in ed.variants.iter().enumerate() {
        let args: Vec<String> = (0..v.record.fields.len()).map(|j| format!("Bridge::from_val(&f[{j}])")).collect();
        match v.shape {
            0 => writeln!(out, "        Val::Enum({i}, _) => {name}::{},", v.name).unwrap(),
            1 => writeln!(out, "        Val::Enum({i}, f) => {name}::{}({}),", v.name, args.join(", ")).unwrap(),
            _ => writeln!(
                out,
                "        Val::Enum({i}, f) => {name}::{} {{ {} }},",
                v.name,
                v.record.fields.iter().zip(&args).map(|(f, a)| format!("{}: {a}", f.name)).collect::<Vec<_>>().join(", ")
            )
            .unwrap(),
        }
    }
    writeln!(out, "        o => panic!(\"from_val {name}: {{o:?}}\"),").unwrap();
    writeln!(out, "    }} }}").unwrap();
    writeln!(out, "}}\n").unwrap();
}

const PARTS: usize = 8;

fn main() {
    let args: Vec<String> = std::env::args().collect();
    let thorough = args.iter().any(|a| a == "--thorough");
    let out_dir = args.iter().position(|a| a == "--out").map(|i| args[i + 1].clone()).expect("--out <universe dir>");
    let u = spec::universe(thorough);
    let exprs = spec::type_exprs(thorough);
    let helpers = ["N0", "N1", "NE"];
    for part in 0..PARTS {
        let mut out = String::new();
        writeln!(out, "// @generated by vgen from refmodel::spec (thorough = {thorough}, part {part}); do not edit").unwrap();
        writeln!(out, "use bridge::{{Bridge, Entry, entry, entry_vec, derived}};").unwrap();
        writeln!(out, "use refmodel::{{Ty, Val}};").unwrap();
        writeln!(out, "pub const THOROUGH: bool = {thorough};").unwrap();
        writeln!(out, "/// an alias hides the `Option` name from the derive macro's detection").unwrap();
        writeln!(out, "pub type OptAlias<T> = Option<T>;\n").unwrap();
        let mut lines: Vec<String> = Vec::new();
        for (i, e) in exprs.iter().enumerate() {
            if i % PARTS != part {
                continue;
            }
            let mut tags: Vec<&str> = Vec::new();
            if e.zero_width_elem {
                tags.push("zero_width_elem");
            }
            if e.zero_width {
                tags.push("zero_width");
            }
            let tag_s = tags.iter().map(|t| format!("{t:?}")).collect::<Vec<_>>().join(", ");
            let ctor = match &e.vec_of {
                Some(t) => format!("entry_vec::<{t}>({:?})", e.rust),
                None => format!("entry::<{}>({:?})", e.rust, e.rust),
            };
            lines.push(format!("{{ let mut e = {ctor}; e.tags = vec![{tag_s}]; v.push(e); }}"));
        }
        let mut k = 0usize;
        for d in &u.decls {
            let is_helper = helpers.contains(&d.name.as_str());
            if !is_helper {
                k += 1;
                if k % PARTS != part {
                    continue;
                }
            }
            match &d.ty {
                Ty::Record(rd) => emit_struct(d, rd, &mut out),
                Ty::Enum(ed) => emit_enum(d, ed, &mut out),
                _ => unreachable!(),
            }
            // helper declarations are repeated in every part; their table row comes from part 0
            if !is_helper || part == 0 {
                let tag_s = d.tags.iter().map(|t| format!("{t:?}")).collect::<Vec<_>>().join(", ");
                lines.push(format!("v.push(derived::<{}>({:?}, &[{tag_s}]));", d.name, d.name));
            }
        }
        // entry tables, in chunks (huge functions compile slowly)
        let chunk = 40;
        let n_chunks = (lines.len() + chunk - 1) / chunk;
        for (ci, c) in lines.chunks(chunk).enumerate() {
            writeln!(out, "#[inline(never)]\nfn entries_{ci}(v: &mut Vec<Entry>) {{").unwrap();
            for l in c {
                writeln!(out, "    {l}").unwrap();
            }
            writeln!(out, "}}").unwrap();
        }
        writeln!(out, "pub fn entries() -> Vec<Entry> {{\n    let mut v = Vec::new();").unwrap();
        for ci in 0..n_chunks {
            writeln!(out, "    entries_{ci}(&mut v);").unwrap();
        }
        writeln!(out, "    v\n}}").unwrap();
        let dir = format!("{out_dir}/parts/p{part}/src");
        std::fs::create_dir_all(&dir).expect("mkdir");
        let file = format!("{dir}/generated_{}.rs", if thorough { "thorough" } else { "quick" });
        // leave the file alone when nothing changed, so cargo does not rebuild the part
        if std::fs::read_to_string(&file).ok().as_deref() != Some(out.as_str()) {
            std::fs::write(&file, out).expect("write generated file");
        }
    }
    eprintln!(
        "vgen: {} type expressions, {} derive declarations ({} histories), thorough={}, {} parts",
        exprs.len(),
        u.decls.len(),
        u.histories.len(),
        thorough,
        PARTS
    );
}
