//! Binding of real Rust types to the model's descriptors and dynamic values.
use bigdecimal::num_bigint::BigInt;
use bigdecimal::BigDecimal;
use bytes::Bytes;
use chrono::{DateTime, FixedOffset, Local, Month, NaiveDate, NaiveDateTime, NaiveTime, TimeZone, Utc, Weekday};
use chrono_tz::Tz;
use desert::{
    BinaryDeserializer, BinaryInput, BinaryOutput, BinarySerializer, DeduplicatedString, DeserializationContext,
    SerializationContext,
};
use refmodel::timeval;
use refmodel::{MapKind, SeqKind, Ty, Val};
use std::collections::{BTreeMap, BTreeSet, HashMap, HashSet, LinkedList};
use std::hash::Hash;
use std::marker::PhantomData;
use std::rc::Rc;
use std::str::FromStr;
use std::sync::Arc;
use std::time::Duration;
use uuid::Uuid;

pub trait Bridge: BinarySerializer + BinaryDeserializer + Sized {
    fn ty() -> Ty;
    fn to_val(&self) -> Val;
    fn from_val(v: &Val) -> Self;
    /// exactly `u8` (not a wrapper around it): containers of it use the byte-array form
    fn is_plain_u8() -> bool {
        false
    }
}

macro_rules! uint {
    ($t:ty, $v:ident) => {
        impl Bridge for $t {
            fn ty() -> Ty {
                Ty::$v
            }
            fn to_val(&self) -> Val {
                Val::U(*self as u128)
            }
            fn from_val(v: &Val) -> Self {
                v.as_u() as $t
            }
        }
    };
}
macro_rules! sint {
    ($t:ty, $v:ident) => {
        impl Bridge for $t {
            fn ty() -> Ty {
                Ty::$v
            }
            fn to_val(&self) -> Val {
                Val::I(*self as i128)
            }
            fn from_val(v: &Val) -> Self {
                v.as_i() as $t
            }
        }
    };
}
impl Bridge for u8 {
    fn ty() -> Ty {
        Ty::U8
    }
    fn to_val(&self) -> Val {
        Val::U(*self as u128)
    }
    fn from_val(v: &Val) -> Self {
        v.as_u() as u8
    }
    fn is_plain_u8() -> bool {
        true
    }
}
uint!(u16, U16);
uint!(u32, U32);
uint!(u64, U64);
uint!(u128, U128);
sint!(i8, I8);
sint!(i16, I16);
sint!(i32, I32);
sint!(i64, I64);
sint!(i128, I128);

impl Bridge for f32 {
    fn ty() -> Ty {
        Ty::F32
    }
    fn to_val(&self) -> Val {
        Val::F32(self.to_bits())
    }
    fn from_val(v: &Val) -> Self {
        match v {
            Val::F32(b) => f32::from_bits(*b),
            o => panic!("bridge: f32 {o:?}"),
        }
    }
}
impl Bridge for f64 {
    fn ty() -> Ty {
        Ty::F64
    }
    fn to_val(&self) -> Val {
        Val::F64(self.to_bits())
    }
    fn from_val(v: &Val) -> Self {
        match v {
            Val::F64(b) => f64::from_bits(*b),
            o => panic!("bridge: f64 {o:?}"),
        }
    }
}
impl Bridge for bool {
    fn ty() -> Ty {
        Ty::Bool
    }
    fn to_val(&self) -> Val {
        Val::Bool(*self)
    }
    fn from_val(v: &Val) -> Self {
        match v {
            Val::Bool(b) => *b,
            o => panic!("bridge: bool {o:?}"),
        }
    }
}
impl Bridge for () {
    fn ty() -> Ty {
        Ty::Unit
    }
    fn to_val(&self) -> Val {
        Val::Unit
    }
    fn from_val(_: &Val) -> Self {}
}
impl<T> Bridge for PhantomData<T> {
    fn ty() -> Ty {
        Ty::Unit
    }
    fn to_val(&self) -> Val {
        Val::Unit
    }
    fn from_val(_: &Val) -> Self {
        PhantomData
    }
}
impl Bridge for char {
    fn ty() -> Ty {
        Ty::Char
    }
    fn to_val(&self) -> Val {
        Val::Char(*self as u32)
    }
    fn from_val(v: &Val) -> Self {
        match v {
            Val::Char(c) => char::from_u32(*c).expect("bridge: scalar value"),
            o => panic!("bridge: char {o:?}"),
        }
    }
}
impl Bridge for String {
    fn ty() -> Ty {
        Ty::Str
    }
    fn to_val(&self) -> Val {
        Val::Str(self.clone())
    }
    fn from_val(v: &Val) -> Self {
        v.as_str().to_string()
    }
}
impl Bridge for DeduplicatedString {
    fn ty() -> Ty {
        Ty::DedupStr
    }
    fn to_val(&self) -> Val {
        Val::Str(self.0.clone())
    }
    fn from_val(v: &Val) -> Self {
        DeduplicatedString(v.as_str().to_string())
    }
}
impl Bridge for Duration {
    fn ty() -> Ty {
        Ty::Duration
    }
    fn to_val(&self) -> Val {
        Val::Tuple(vec![Val::U(self.as_secs() as u128), Val::U(self.subsec_nanos() as u128)])
    }
    fn from_val(v: &Val) -> Self {
        let xs = v.items();
        Duration::new(xs[0].as_u() as u64, xs[1].as_u() as u32)
    }
}

/// bare varints, written with the public `BinaryOutput` / `BinaryInput` methods
#[derive(Clone, Copy, Debug, PartialEq, Eq, Hash, PartialOrd, Ord)]
pub struct VarU(pub u32);
#[derive(Clone, Copy, Debug, PartialEq, Eq, Hash, PartialOrd, Ord)]
pub struct VarI(pub i32);

impl BinarySerializer for VarU {
    fn serialize<O: BinaryOutput>(&self, c: &mut SerializationContext<O>) -> desert::Result<()> {
        c.write_var_u32(self.0);
        Ok(())
    }
}
impl BinaryDeserializer for VarU {
    fn deserialize(c: &mut DeserializationContext<'_>) -> desert::Result<Self> {
        Ok(VarU(c.read_var_u32()?))
    }
}
impl BinarySerializer for VarI {
    fn serialize<O: BinaryOutput>(&self, c: &mut SerializationContext<O>) -> desert::Result<()> {
        c.write_var_i32(self.0);
        Ok(())
    }
}
impl BinaryDeserializer for VarI {
    fn deserialize(c: &mut DeserializationContext<'_>) -> desert::Result<Self> {
        Ok(VarI(c.read_var_i32()?))
    }
}
impl Bridge for VarU {
    fn ty() -> Ty {
        Ty::VarU32
    }
    fn to_val(&self) -> Val {
        Val::U(self.0 as u128)
    }
    fn from_val(v: &Val) -> Self {
        VarU(v.as_u() as u32)
    }
}
impl Bridge for VarI {
    fn ty() -> Ty {
        Ty::VarI32
    }
    fn to_val(&self) -> Val {
        Val::I(self.0 as i128)
    }
    fn from_val(v: &Val) -> Self {
        VarI(v.as_i() as i32)
    }
}

impl<T: Bridge> Bridge for Option<T> {
    fn ty() -> Ty {
        Ty::Opt(Box::new(T::ty()))
    }
    fn to_val(&self) -> Val {
        Val::Opt(self.as_ref().map(|x| Box::new(x.to_val())))
    }
    fn from_val(v: &Val) -> Self {
        match v {
            Val::Opt(o) => o.as_ref().map(|x| T::from_val(x)),
            o => panic!("bridge: option {o:?}"),
        }
    }
}
impl<A: Bridge, B: Bridge> Bridge for Result<A, B> {
    fn ty() -> Ty {
        Ty::Res(Box::new(A::ty()), Box::new(B::ty()))
    }
    fn to_val(&self) -> Val {
        Val::Res(match self {
            Ok(x) => Ok(Box::new(x.to_val())),
            Err(x) => Err(Box::new(x.to_val())),
        })
    }
    fn from_val(v: &Val) -> Self {
        match v {
            Val::Res(Ok(x)) => Ok(A::from_val(x)),
            Val::Res(Err(x)) => Err(B::from_val(x)),
            o => panic!("bridge: result {o:?}"),
        }
    }
}

fn seq_ty(kind: SeqKind, elem: Ty, plain_u8: bool) -> Ty {
    if kind == SeqKind::Vec && plain_u8 {
        Ty::ByteVec
    } else {
        Ty::Seq(kind, Box::new(elem))
    }
}

fn seq_to_val<'a, T: Bridge + 'a>(is_bytes: bool, it: impl Iterator<Item = &'a T>) -> Val {
    if is_bytes {
        Val::Bytes(it.map(|x| x.to_val().as_u() as u8).collect())
    } else {
        Val::Seq(it.map(|x| x.to_val()).collect())
    }
}

fn seq_from_val<T: Bridge, C: FromIterator<T>>(v: &Val) -> C {
    match v {
        Val::Bytes(b) => b.iter().map(|x| T::from_val(&Val::U(*x as u128))).collect(),
        Val::Seq(xs) => xs.iter().map(T::from_val).collect(),
        o => panic!("bridge: sequence {o:?}"),
    }
}

impl<T: Bridge> Bridge for Vec<T> {
    fn ty() -> Ty {
        seq_ty(SeqKind::Vec, T::ty(), T::is_plain_u8())
    }
    fn to_val(&self) -> Val {
        seq_to_val(T::is_plain_u8(), self.iter())
    }
    fn from_val(v: &Val) -> Self {
        seq_from_val(v)
    }
}
impl<T: Bridge + Eq + Hash> Bridge for LinkedList<T> {
    fn ty() -> Ty {
        Ty::Seq(SeqKind::List, Box::new(T::ty()))
    }
    fn to_val(&self) -> Val {
        seq_to_val(false, self.iter())
    }
    fn from_val(v: &Val) -> Self {
        seq_from_val(v)
    }
}
impl<T: Bridge + Eq + Hash> Bridge for HashSet<T> {
    fn ty() -> Ty {
        Ty::Seq(SeqKind::HashSet, Box::new(T::ty()))
    }
    fn to_val(&self) -> Val {
        seq_to_val(false, self.iter())
    }
    fn from_val(v: &Val) -> Self {
        seq_from_val(v)
    }
}
impl<T: Bridge + Ord> Bridge for BTreeSet<T> {
    fn ty() -> Ty {
        Ty::Seq(SeqKind::BTreeSet, Box::new(T::ty()))
    }
    fn to_val(&self) -> Val {
        seq_to_val(false, self.iter())
    }
    fn from_val(v: &Val) -> Self {
        seq_from_val(v)
    }
}
impl<T: Bridge, const N: usize> Bridge for [T; N] {
    fn ty() -> Ty {
        if T::is_plain_u8() {
            Ty::ByteArray(N)
        } else {
            Ty::Array(N, Box::new(T::ty()))
        }
    }
    fn to_val(&self) -> Val {
        seq_to_val(T::is_plain_u8(), self.iter())
    }
    fn from_val(v: &Val) -> Self {
        let xs: Vec<T> = seq_from_val(v);
        match xs.try_into() {
            Ok(a) => a,
            Err(_) => panic!("bridge: array length"),
        }
    }
}
impl Bridge for Bytes {
    fn ty() -> Ty {
        Ty::ByteVec
    }
    fn to_val(&self) -> Val {
        Val::Bytes(self.to_vec())
    }
    fn from_val(v: &Val) -> Self {
        Bytes::from(v.as_bytes().to_vec())
    }
}
impl<K: Bridge + Eq + Hash, V: Bridge> Bridge for HashMap<K, V> {
    fn ty() -> Ty {
        Ty::Map(MapKind::Hash, Box::new(K::ty()), Box::new(V::ty()))
    }
    fn to_val(&self) -> Val {
        Val::Map(self.iter().map(|(k, v)| (k.to_val(), v.to_val())).collect())
    }
    fn from_val(v: &Val) -> Self {
        match v {
            Val::Map(xs) => xs.iter().map(|(k, v)| (K::from_val(k), V::from_val(v))).collect(),
            o => panic!("bridge: map {o:?}"),
        }
    }
}
impl<K: Bridge + Ord, V: Bridge> Bridge for BTreeMap<K, V> {
    fn ty() -> Ty {
        Ty::Map(MapKind::BTree, Box::new(K::ty()), Box::new(V::ty()))
    }
    fn to_val(&self) -> Val {
        Val::Map(self.iter().map(|(k, v)| (k.to_val(), v.to_val())).collect())
    }
    fn from_val(v: &Val) -> Self {
        match v {
            Val::Map(xs) => xs.iter().map(|(k, v)| (K::from_val(k), V::from_val(v))).collect(),
            o => panic!("bridge: map {o:?}"),
        }
    }
}

macro_rules! wrapper {
    ($w:ident) => {
        impl<T: Bridge> Bridge for $w<T> {
            fn ty() -> Ty {
                T::ty()
            }
            fn to_val(&self) -> Val {
                (**self).to_val()
            }
            fn from_val(v: &Val) -> Self {
                $w::new(T::from_val(v))
            }
        }
    };
}
wrapper!(Box);
wrapper!(Rc);
wrapper!(Arc);

macro_rules! tuple {
    ($($t:ident $i:tt),+) => {
        impl<$($t: Bridge),+> Bridge for ($($t,)+) {
            fn ty() -> Ty { Ty::Tuple(vec![$($t::ty()),+]) }
            fn to_val(&self) -> Val { Val::Tuple(vec![$(self.$i.to_val()),+]) }
            fn from_val(v: &Val) -> Self {
                let xs = v.items();
                ($($t::from_val(&xs[$i]),)+)
            }
        }
    };
}
tuple!(A 0);
tuple!(A 0, B 1);
tuple!(A 0, B 1, C 2);
tuple!(A 0, B 1, C 2, D 3);
tuple!(A 0, B 1, C 2, D 3, E 4);
tuple!(A 0, B 1, C 2, D 3, E 4, F 5);
tuple!(A 0, B 1, C 2, D 3, E 4, F 5, G 6);
tuple!(A 0, B 1, C 2, D 3, E 4, F 5, G 6, H 7);

impl Bridge for Uuid {
    fn ty() -> Ty {
        Ty::Uuid
    }
    fn to_val(&self) -> Val {
        Val::Bytes(self.as_bytes().to_vec())
    }
    fn from_val(v: &Val) -> Self {
        Uuid::from_slice(v.as_bytes()).unwrap()
    }
}
impl Bridge for BigInt {
    fn ty() -> Ty {
        Ty::BigInt
    }
    fn to_val(&self) -> Val {
        Val::Bytes(self.to_signed_bytes_be())
    }
    fn from_val(v: &Val) -> Self {
        BigInt::from_signed_bytes_be(v.as_bytes())
    }
}
impl Bridge for BigDecimal {
    fn ty() -> Ty {
        Ty::BigDecimal
    }
    fn to_val(&self) -> Val {
        Val::Str(self.to_string())
    }
    fn from_val(v: &Val) -> Self {
        BigDecimal::from_str(v.as_str()).unwrap()
    }
}
impl Bridge for Weekday {
    fn ty() -> Ty {
        Ty::Weekday
    }
    fn to_val(&self) -> Val {
        Val::U(self.number_from_monday() as u128)
    }
    fn from_val(v: &Val) -> Self {
        Weekday::try_from(v.as_u() as u8 - 1).unwrap()
    }
}
impl Bridge for Month {
    fn ty() -> Ty {
        Ty::Month
    }
    fn to_val(&self) -> Val {
        Val::U(self.number_from_month() as u128)
    }
    fn from_val(v: &Val) -> Self {
        Month::try_from(v.as_u() as u8).unwrap()
    }
}
impl Bridge for FixedOffset {
    fn ty() -> Ty {
        Ty::FixedOffset
    }
    fn to_val(&self) -> Val {
        Val::I(self.local_minus_utc() as i128)
    }
    fn from_val(v: &Val) -> Self {
        FixedOffset::east_opt(v.as_i() as i32).unwrap()
    }
}
impl Bridge for Tz {
    fn ty() -> Ty {
        Ty::Tz
    }
    fn to_val(&self) -> Val {
        Val::s(self.name())
    }
    fn from_val(v: &Val) -> Self {
        Tz::from_str(v.as_str()).unwrap()
    }
}
impl Bridge for DateTime<Utc> {
    fn ty() -> Ty {
        Ty::DtUtc
    }
    fn to_val(&self) -> Val {
        Val::Tuple(vec![Val::I(self.timestamp() as i128), Val::U(self.timestamp_subsec_nanos() as u128)])
    }
    fn from_val(v: &Val) -> Self {
        let xs = v.items();
        DateTime::<Utc>::from_timestamp(xs[0].as_i() as i64, xs[1].as_u() as u32).unwrap()
    }
}
impl Bridge for NaiveDate {
    fn ty() -> Ty {
        Ty::NaiveDate
    }
    fn to_val(&self) -> Val {
        timeval::date_val(self)
    }
    fn from_val(v: &Val) -> Self {
        timeval::val_date(v).unwrap()
    }
}
impl Bridge for NaiveTime {
    fn ty() -> Ty {
        Ty::NaiveTime
    }
    fn to_val(&self) -> Val {
        timeval::time_val(self)
    }
    fn from_val(v: &Val) -> Self {
        timeval::val_time(v).unwrap()
    }
}
impl Bridge for NaiveDateTime {
    fn ty() -> Ty {
        Ty::NaiveDateTime
    }
    fn to_val(&self) -> Val {
        timeval::datetime_val(self)
    }
    fn from_val(v: &Val) -> Self {
        timeval::val_datetime(v).unwrap()
    }
}
impl Bridge for DateTime<Local> {
    fn ty() -> Ty {
        Ty::DtLocal
    }
    fn to_val(&self) -> Val {
        Val::Tuple(vec![timeval::date_val(&self.date_naive()), timeval::time_val(&self.time())])
    }
    fn from_val(v: &Val) -> Self {
        Local.from_local_datetime(&timeval::val_datetime(v).unwrap()).single().unwrap()
    }
}
impl Bridge for DateTime<FixedOffset> {
    fn ty() -> Ty {
        Ty::DtFixed
    }
    fn to_val(&self) -> Val {
        Val::Tuple(vec![timeval::datetime_val(&self.naive_local()), Val::I(self.offset().local_minus_utc() as i128)])
    }
    fn from_val(v: &Val) -> Self {
        let xs = v.items();
        FixedOffset::east_opt(xs[1].as_i() as i32)
            .unwrap()
            .from_local_datetime(&timeval::val_datetime(&xs[0]).unwrap())
            .single()
            .unwrap()
    }
}
impl Bridge for DateTime<Tz> {
    fn ty() -> Ty {
        Ty::DtTz
    }
    fn to_val(&self) -> Val {
        Val::Tuple(vec![timeval::datetime_val(&self.naive_utc()), Val::s(self.timezone().name())])
    }
    fn from_val(v: &Val) -> Self {
        let xs = v.items();
        Tz::from_str(xs[1].as_str()).unwrap().from_utc_datetime(&timeval::val_datetime(&xs[0]).unwrap())
    }
}
