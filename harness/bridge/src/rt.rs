//! Explorer runtime: parallel enumeration, statistics, violations, known findings, evidence.
use refmodel::{Ty, Val};
use serde_json::{json, Value};
use std::collections::{BTreeMap, BTreeSet};
use std::sync::atomic::{AtomicBool, AtomicU64, AtomicUsize, Ordering};
use std::sync::{Arc, Mutex};
use std::time::Instant;

pub const VERIF_ROOT: &str = "/verif";

#[derive(Clone, Debug)]
pub struct Violation {
    /// names the specific failing input / call site / history; matched against known findings
    pub fingerprint: String,
    /// key that re-selects exactly this case (`--only`)
    pub key: String,
    pub detail: Value,
}

/// per-worker statistics, merged at the end
#[derive(Default, Clone)]
pub struct Stats {
    /// distinct cases explored (states of the enumerated space)
    pub states: u64,
    /// library calls executed (transitions)
    pub transitions: u64,
    /// model predictions compared with a run of the real code
    pub validated: u64,
    /// cases that are non-trivial by the check's rule
    pub nontrivial: u64,
    pub hist: BTreeMap<String, u64>,
    pub violations: Vec<Violation>,
    pub violation_count: u64,
    pub samples: Vec<Value>,
    pub extra: BTreeMap<String, u64>,
}

impl Stats {
    pub fn bump(&mut self, k: &str) {
        *self.hist.entry(k.to_string()).or_insert(0) += 1;
    }
    pub fn add(&mut self, k: &str, n: u64) {
        *self.extra.entry(k.to_string()).or_insert(0) += n;
    }
    pub fn violate(&mut self, fingerprint: String, key: String, detail: Value) {
        self.violation_count += 1;
        // keep the first few per fingerprint; count all
        if self.violations.len() < 200 && !self.violations.iter().any(|v| v.fingerprint == fingerprint) {
            journal(&fingerprint, &key, &detail);
            self.violations.push(Violation { fingerprint, key, detail });
        }
    }
    pub fn sample(&mut self, v: Value) {
        if self.samples.len() < 3 {
            self.samples.push(v);
        }
    }
    pub fn merge(&mut self, o: Stats) {
        self.states += o.states;
        self.transitions += o.transitions;
        self.validated += o.validated;
        self.nontrivial += o.nontrivial;
        self.violation_count += o.violation_count;
        for (k, v) in o.hist {
            *self.hist.entry(k).or_insert(0) += v;
        }
        for (k, v) in o.extra {
            *self.extra.entry(k).or_insert(0) += v;
        }
        for v in o.violations {
            if self.violations.len() < 400 && !self.violations.iter().any(|x| x.fingerprint == v.fingerprint) {
                self.violations.push(v);
            }
        }
        for s in o.samples {
            if self.samples.len() < 6 {
                self.samples.push(s);
            }
        }
    }
}

static JOURNAL: Mutex<Option<std::fs::File>> = Mutex::new(None);

/// Sweeps that run in a child process journal every new violation at once, so that what was found
/// is not lost if the process later dies (abort, stack overflow) in the library under test.
pub fn set_journal(path: &str) {
    *JOURNAL.lock().unwrap() = std::fs::File::create(path).ok();
}

fn journal(fingerprint: &str, key: &str, detail: &Value) {
    use std::io::Write;
    if let Ok(mut g) = JOURNAL.lock() {
        if let Some(f) = g.as_mut() {
            let _ = writeln!(f, "{}", json!({"fingerprint": fingerprint, "key": key, "detail": detail}));
            let _ = f.flush();
        }
    }
}

pub fn read_journal(path: &str) -> Vec<Violation> {
    let mut out: Vec<Violation> = Vec::new();
    if let Ok(s) = std::fs::read_to_string(path) {
        for l in s.lines() {
            if let Ok(v) = serde_json::from_str::<Value>(l) {
                let fp = v["fingerprint"].as_str().unwrap_or("").to_string();
                if !out.iter().any(|x| x.fingerprint == fp) {
                    out.push(Violation { fingerprint: fp, key: v["key"].as_str().unwrap_or("").to_string(), detail: v["detail"].clone() });
                }
            }
        }
    }
    out
}

static CURRENT: Mutex<(String, bool)> = Mutex::new((String::new(), false));

/// watchdog limit for one work item (items normally take milliseconds; a real hang is infinite)
pub fn hang_limit() -> u64 {
    if CURRENT.lock().unwrap().1 {
        600_000
    } else {
        180_000
    }
}

pub fn threads() -> usize {
    std::env::var("VERIF_THREADS").ok().and_then(|s| s.parse().ok()).unwrap_or_else(|| {
        std::thread::available_parallelism().map(|n| n.get()).unwrap_or(8).min(16)
    })
}

/// watchdog slots: one per worker
pub struct Watch {
    started_ms: Vec<AtomicU64>,
    item: Vec<AtomicUsize>,
    t0: Instant,
    pub limit_ms: u64,
    done: AtomicBool,
}

impl Watch {
    pub fn new(workers: usize, limit_ms: u64) -> Arc<Self> {
        Arc::new(Watch {
            started_ms: (0..workers).map(|_| AtomicU64::new(u64::MAX)).collect(),
            item: (0..workers).map(|_| AtomicUsize::new(usize::MAX)).collect(),
            t0: Instant::now(),
            limit_ms,
            done: AtomicBool::new(false),
        })
    }
    fn begin(&self, w: usize, item: usize) {
        self.item[w].store(item, Ordering::Relaxed);
        self.started_ms[w].store(self.t0.elapsed().as_millis() as u64, Ordering::Release);
    }
    fn end(&self, w: usize) {
        self.started_ms[w].store(u64::MAX, Ordering::Release);
    }
    /// item index of a worker that exceeded the limit
    fn overdue(&self) -> Option<usize> {
        let now = self.t0.elapsed().as_millis() as u64;
        for (w, s) in self.started_ms.iter().enumerate() {
            let st = s.load(Ordering::Acquire);
            if st != u64::MAX && now.saturating_sub(st) > self.limit_ms {
                return Some(self.item[w].load(Ordering::Relaxed));
            }
        }
        None
    }
}

/// Run `f` on every item, 16 workers taking items from a shared counter. `f` must be
/// deterministic per item; worker partitioning never affects verdicts. If `hang_ms` is given a
/// watchdog reports the first item that does not finish in time through `on_hang` and the process
/// exits (a thread cannot be killed).
pub fn par_items<T: Sync>(
    items: &[T],
    hang_ms: Option<u64>,
    on_hang: &(dyn Fn(&T) + Sync),
    f: &(dyn Fn(&T, &mut Stats) + Sync),
) -> Stats {
    let n = threads();
    let next = AtomicUsize::new(0);
    let watch = Watch::new(n, hang_ms.unwrap_or(u64::MAX / 4));
    let results: Mutex<Vec<Stats>> = Mutex::new(Vec::new());
    std::thread::scope(|s| {
        if hang_ms.is_some() {
            let watch = watch.clone();
            s.spawn(move || {
                while !watch.done.load(Ordering::Acquire) {
                    std::thread::sleep(std::time::Duration::from_millis(50));
                    if let Some(i) = watch.overdue() {
                        let prop = CURRENT.lock().unwrap().0.clone();
                        let path = format!("{VERIF_ROOT}/replays/{prop}-hang.json");
                        let _ = std::fs::create_dir_all(format!("{VERIF_ROOT}/replays"));
                        let _ = std::fs::write(&path, format!("{{\"property\": \"{prop}\", \"fingerprint\": \"{prop} a work item did not finish within the watchdog limit\", \"only\": \"\"}}"));
                        println!("VIOLATION property={prop} replay={path}");
                        println!("  fingerprint: {prop} a work item did not finish within {} ms (hang)", watch.limit_ms);
                        if i < items.len() {
                            on_hang(&items[i]);
                        }
                        hard_exit(1);
                    }
                }
            });
        }
        let mut handles = Vec::new();
        for w in 0..n {
            let next = &next;
            let watch = watch.clone();
            let results = &results;
            handles.push(s.spawn(move || {
                let mut st = Stats::default();
                loop {
                    let i = next.fetch_add(1, Ordering::Relaxed);
                    if i >= items.len() {
                        break;
                    }
                    watch.begin(w, i);
                    let r = std::panic::catch_unwind(std::panic::AssertUnwindSafe(|| f(&items[i], &mut st)));
                    watch.end(w);
                    if r.is_err() {
                        // a panic outside a guarded call. Raised inside the library (a call the
                        // harness makes unguarded because it cannot fail - reading the byte after a
                        // decoded value, say): the property's observation could not be made, which
                        // is a violation of whichever property asked for it. Raised in the harness
                        // itself: a machinery failure, never a verdict.
                        let msg = crate::err::take_last_panic().unwrap_or_else(|| "<unknown>".into());
                        let loc = msg.rsplit(" @ ").next().unwrap_or("").to_string();
                        let prop = CURRENT.lock().unwrap().0.clone();
                        if loc.starts_with("/repo/") {
                            let site = loc.trim_start_matches("/repo/").to_string();
                            st.violate(format!("{prop} the library panics in a call made while checking the result at={site}"), String::new(), serde_json::json!({"panic": msg, "work_item": i}));
                        } else {
                            eprintln!("MACHINERY: a harness worker panicked: {msg}");
                            hard_exit(2);
                        }
                    }
                }
                results.lock().unwrap().push(st);
            }));
        }
        for h in handles {
            if h.join().is_err() {
                eprintln!("MACHINERY: a harness worker panicked outside the guarded library call");
                std::process::exit(2);
            }
        }
        watch.done.store(true, Ordering::Release);
    });
    let mut total = Stats::default();
    for st in results.into_inner().unwrap() {
        total.merge(st);
    }
    total
}

/// Leave the process at once: workers may be stuck in loops that never return, and the regular
/// exit path (atexit handlers, joining) was seen to leave such a process behind as a zombie with
/// spinning threads.
pub fn hard_exit(code: i32) -> ! {
    use std::io::Write;
    let _ = std::io::stdout().flush();
    let _ = std::io::stderr().flush();
    unsafe { libc::_exit(code) }
}

/// wait for a child with a wall-clock limit; on expiry the child is killed and None is returned
pub fn wait_with_timeout(child: &mut std::process::Child, limit: std::time::Duration) -> Option<std::process::ExitStatus> {
    let t0 = Instant::now();
    loop {
        match child.try_wait() {
            Ok(Some(st)) => return Some(st),
            Ok(None) => {}
            Err(_) => return None,
        }
        if t0.elapsed() > limit {
            let _ = child.kill();
            let _ = child.wait();
            return None;
        }
        std::thread::sleep(std::time::Duration::from_millis(20));
    }
}

pub fn hex(b: &[u8]) -> String {
    let mut s = String::with_capacity(b.len() * 2);
    for x in b.iter().take(4096) {
        s.push_str(&format!("{x:02x}"));
    }
    if b.len() > 4096 {
        s.push_str(&format!("..(+{} bytes)", b.len() - 4096));
    }
    s
}

pub fn unhex(s: &str) -> Vec<u8> {
    let s: Vec<u8> = s.bytes().filter(|c| c.is_ascii_hexdigit()).collect();
    s.chunks(2).map(|p| u8::from_str_radix(std::str::from_utf8(p).unwrap(), 16).unwrap()).collect()
}

pub fn val_json(v: &Val) -> Value {
    match v {
        Val::U(x) => {
            if *x <= u64::MAX as u128 {
                json!(*x as u64)
            } else {
                json!(x.to_string())
            }
        }
        Val::I(x) => {
            if *x >= i64::MIN as i128 && *x <= i64::MAX as i128 {
                json!(*x as i64)
            } else {
                json!(x.to_string())
            }
        }
        Val::F32(b) => json!(format!("f32:{b:#010x}")),
        Val::F64(b) => json!(format!("f64:{b:#018x}")),
        Val::Bool(b) => json!(b),
        Val::Unit => json!("()"),
        Val::Char(c) => json!(format!("U+{c:04X}")),
        Val::Str(s) => {
            if s.len() > 80 {
                json!(format!("{}..(len {})", s.chars().take(40).collect::<String>(), s.len()))
            } else {
                json!(s)
            }
        }
        Val::Bytes(b) => json!(format!("hex:{}", if b.len() > 64 { format!("{}..(len {})", hex(&b[..32]), b.len()) } else { hex(b) })),
        Val::Opt(None) => json!(null),
        Val::Opt(Some(x)) => json!({ "Some": val_json(x) }),
        Val::Res(Ok(x)) => json!({ "Ok": val_json(x) }),
        Val::Res(Err(x)) => json!({ "Err": val_json(x) }),
        Val::Seq(xs) => {
            if xs.len() > 12 {
                json!({"seq_len": xs.len(), "head": xs.iter().take(4).map(val_json).collect::<Vec<_>>()})
            } else {
                Value::Array(xs.iter().map(val_json).collect())
            }
        }
        Val::Map(xs) => Value::Array(xs.iter().map(|(k, v)| json!([val_json(k), val_json(v)])).collect()),
        Val::Tuple(xs) => json!({ "tuple": xs.iter().map(val_json).collect::<Vec<_>>() }),
        Val::Rec(xs) => json!({ "rec": xs.iter().map(val_json).collect::<Vec<_>>() }),
        Val::Enum(i, xs) => json!({ "variant": i, "fields": xs.iter().map(val_json).collect::<Vec<_>>() }),
    }
}

pub fn ty_name(t: &Ty) -> String {
    match t {
        Ty::Opt(x) => format!("Option<{}>", ty_name(x)),
        Ty::Res(a, b) => format!("Result<{},{}>", ty_name(a), ty_name(b)),
        Ty::Seq(k, x) => format!("{k:?}<{}>", ty_name(x)),
        Ty::Array(n, x) => format!("[{};{n}]", ty_name(x)),
        Ty::ByteArray(n) => format!("[u8;{n}]"),
        Ty::Map(k, a, b) => format!("{k:?}Map<{},{}>", ty_name(a), ty_name(b)),
        Ty::Tuple(ts) => format!("({})", ts.iter().map(ty_name).collect::<Vec<_>>().join(",")),
        Ty::Record(rd) => {
            let fs: Vec<String> = rd
                .fields
                .iter()
                .map(|f| format!("{}{}:{}", if f.transient.is_some() { "#t " } else { "" }, f.name, ty_name(&f.ty)))
                .collect();
            let st: Vec<String> = rd.steps.iter().map(|s| format!("{s:?}")).collect();
            format!("struct {}{{{}}}[{}]", rd.name, fs.join(","), st.join(","))
        }
        Ty::Enum(ed) => {
            let vs: Vec<String> = ed
                .variants
                .iter()
                .map(|v| format!("{}{}", if v.transient { "#t " } else { "" }, v.name))
                .collect();
            format!("enum {}{}{{{}}}", ed.name, if ed.sorted { "#sorted" } else { "" }, vs.join("|"))
        }
        Ty::Named(n) => n.clone(),
        other => format!("{other:?}"),
    }
}

#[derive(Clone, Debug)]
pub struct Known {
    pub property: String,
    pub status: String,
    pub fingerprint: String,
    pub what: String,
}

pub fn load_known() -> Vec<Known> {
    let p = format!("{VERIF_ROOT}/known_findings.json");
    let Ok(s) = std::fs::read_to_string(&p) else { return vec![] };
    let v: Value = serde_json::from_str(&s).expect("known_findings.json parses");
    v["findings"]
        .as_array()
        .map(|a| {
            a.iter()
                .map(|e| Known {
                    property: e["property"].as_str().unwrap_or("").to_string(),
                    status: e["status"].as_str().unwrap_or("").to_string(),
                    fingerprint: e["fingerprint"].as_str().unwrap_or("").to_string(),
                    what: e["what"].as_str().unwrap_or("").to_string(),
                })
                .collect()
        })
        .unwrap_or_default()
}

/// a known-finding fingerprint matches exactly, or as a prefix when it ends in `*`
fn fp_matches(pattern: &str, fp: &str) -> bool {
    if let Some(p) = pattern.strip_suffix('*') {
        fp.starts_with(p)
    } else {
        pattern == fp
    }
}

pub struct Run {
    pub property: String,
    pub tier: String,
    pub level: &'static str,
    pub seed: u64,
    pub start: Instant,
    pub only: Option<String>,
    pub stats: Stats,
    pub rule: String,
    pub bounds: Value,
    pub assumptions: Vec<String>,
    pub exhaustive: bool,
    pub caps_hit: Vec<String>,
    pub extra: BTreeMap<String, Value>,
}

impl Run {
    pub fn new(property: &str, tier: &str, level: &'static str, only: Option<String>) -> Self {
        let seed = std::env::var("VERIF_SEED").ok().and_then(|s| s.parse().ok()).unwrap_or(0);
        *CURRENT.lock().unwrap() = (property.to_string(), tier == "thorough");
        Run {
            property: property.to_string(),
            tier: tier.to_string(),
            level,
            seed,
            start: Instant::now(),
            only,
            stats: Stats::default(),
            rule: String::new(),
            bounds: json!({}),
            assumptions: vec![],
            exhaustive: true,
            caps_hit: vec![],
            extra: BTreeMap::new(),
        }
    }

    pub fn thorough(&self) -> bool {
        self.tier == "thorough"
    }

    pub fn selected(&self, key: &str) -> bool {
        match &self.only {
            None => true,
            Some(k) => key == k || key.starts_with(&format!("{k}/")) || key.starts_with(&format!("{k}#")),
        }
    }

    /// write evidence, print verdict lines, return the process exit code
    pub fn finish(mut self) -> i32 {
        let known = load_known();
        let mut unlisted: Vec<&Violation> = Vec::new();
        let mut announced: BTreeSet<String> = BTreeSet::new();
        let mut known_hits = 0u64;
        for v in &self.stats.violations {
            match known
                .iter()
                .find(|k| k.property == self.property && k.status == "known" && fp_matches(&k.fingerprint, &v.fingerprint))
            {
                Some(k) => {
                    known_hits += 1;
                    if announced.insert(k.fingerprint.clone()) {
                        println!("KNOWN-FINDING: property={} {} [{}]", self.property, k.what, k.fingerprint);
                    }
                }
                None => unlisted.push(v),
            }
        }
        let wall = self.start.elapsed().as_secs_f64();
        if !self.caps_hit.is_empty() {
            self.exhaustive = false;
        }
        let mut samples = self.stats.samples.clone();
        if samples.is_empty() {
            samples.push(json!("(no case explored)"));
        }
        let mut coverage = json!({
            "states": self.stats.states,
            "transitions": self.stats.transitions,
            "traces_validated_against_impl": self.stats.validated,
            "evaluations": self.stats.transitions,
            "distinct_nontrivial": self.stats.nontrivial,
            "rule": self.rule,
            "samples": samples,
            "exhaustive": self.exhaustive,
            "bounds": self.bounds,
            "caps_hit": self.caps_hit,
            "outcome_histogram": self.stats.hist,
            "counters": self.stats.extra,
            "violations_total_incl_repeats": self.stats.violation_count,
            "known_finding_hits": known_hits,
        });
        for (k, v) in &self.extra {
            coverage[k] = v.clone();
        }
        if self.level == "translation_validation" {
            coverage["programs"] = json!(self.stats.extra.get("programs").copied().unwrap_or(0));
            coverage["disagreements_checked"] = json!(self.stats.validated);
        }
        let ev = json!({
            "property_id": self.property,
            "tier": self.tier,
            "seed": self.seed,
            "level": self.level,
            "coverage": coverage,
            "assumptions": self.assumptions,
            "wall_s": wall,
            "violations": unlisted.len(),
        });
        if self.only.is_none() {
            let dir = format!("{VERIF_ROOT}/evidence");
            let _ = std::fs::create_dir_all(&dir);
            let path = format!("{dir}/{}.json", self.property);
            std::fs::write(&path, serde_json::to_string_pretty(&ev).unwrap()).expect("write evidence");
        }
        println!(
            "[{} {}] states={} transitions={} validated={} nontrivial={} violations={} (unlisted {}) wall={:.1}s exhaustive={}",
            self.property,
            self.tier,
            self.stats.states,
            self.stats.transitions,
            self.stats.validated,
            self.stats.nontrivial,
            self.stats.violation_count,
            unlisted.len(),
            wall,
            self.exhaustive
        );
        if std::env::var_os("VERIF_ALL_FPS").is_some() {
            for v in &unlisted {
                println!("FP {}", v.fingerprint);
            }
        }
        if unlisted.is_empty() {
            return 0;
        }
        let dir = format!("{VERIF_ROOT}/replays");
        let _ = std::fs::create_dir_all(&dir);
        for v in unlisted.iter().take(25) {
            let h = fnv(&v.fingerprint);
            let path = format!("{dir}/{}-{h:016x}.json", self.property);
            let body = json!({
                "property": self.property,
                "tier": self.tier,
                "fingerprint": v.fingerprint,
                "only": v.key,
                "detail": v.detail,
            });
            let _ = std::fs::write(&path, serde_json::to_string_pretty(&body).unwrap());
            println!("VIOLATION property={} replay={}", self.property, path);
            println!("  fingerprint: {}", v.fingerprint);
        }
        if unlisted.len() > 25 {
            println!("  (+{} more distinct fingerprints)", unlisted.len() - 25);
        }
        1
    }
}

pub fn fnv(s: &str) -> u64 {
    let mut h: u64 = 0xcbf29ce484222325;
    for b in s.bytes() {
        h ^= b as u64;
        h = h.wrapping_mul(0x100000001b3);
    }
    h
}
