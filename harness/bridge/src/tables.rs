//! Harness codecs for the per-stream tables: flat scripts of string writes (C09) and an object
//! graph codec built on the public reference-tracking API (C10).
use crate::err::{guarded, Out};
use desert::adt::{AdtDeserializer, AdtMetadata, AdtSerializer};
use desert::Evolution;
use desert::{
    BinaryDeserializer, BinaryInput, BinaryOutput, BinarySerializer, DeduplicatedString, DeserializationContext,
    Result, SerializationContext,
};
use std::cell::RefCell;
use std::rc::{Rc, Weak};

/// a user codec built on the compressed-block primitives: `id ++ compressed(payload) ++ tail`
#[derive(Debug, PartialEq, Eq, Clone)]
pub struct Zipped {
    pub id: u8,
    pub payload: Vec<u8>,
    pub tail: u16,
}

impl BinarySerializer for Zipped {
    fn serialize<O: BinaryOutput>(&self, ctx: &mut SerializationContext<O>) -> Result<()> {
        ctx.write_u8(self.id);
        ctx.write_compressed(&self.payload, Default::default())?;
        ctx.write_u16(self.tail);
        Ok(())
    }
}

impl BinaryDeserializer for Zipped {
    fn deserialize(ctx: &mut DeserializationContext<'_>) -> Result<Self> {
        let id = ctx.read_u8()?;
        let payload = ctx.read_compressed()?;
        let tail = ctx.read_u16()?;
        Ok(Zipped { id, payload, tail })
    }
}

pub fn zipped_encode(z: &Zipped) -> Out<Vec<u8>> {
    guarded(|| desert::serialize_to_byte_vec(z)).0
}

pub fn zipped_decode(b: &[u8]) -> Out<Zipped> {
    guarded(|| desert::deserialize::<Zipped>(b)).0
}

/// a flat stream of string writes: (deduplicated?, string)
pub struct FlatScript(pub Vec<(bool, String)>);

impl BinarySerializer for FlatScript {
    fn serialize<O: BinaryOutput>(&self, ctx: &mut SerializationContext<O>) -> Result<()> {
        for (d, s) in &self.0 {
            if *d {
                DeduplicatedString(s.clone()).serialize(ctx)?;
            } else {
                s.serialize(ctx)?;
            }
        }
        Ok(())
    }
}

pub fn flat_encode(script: &[(bool, String)]) -> Out<Vec<u8>> {
    let s = FlatScript(script.to_vec());
    guarded(|| desert::serialize_to_byte_vec(&s)).0
}

pub fn flat_decode(shape: &[bool], bytes: &[u8]) -> Out<Vec<String>> {
    guarded(|| {
        let mut ctx = DeserializationContext::new(bytes);
        let mut out = Vec::new();
        for d in shape {
            if *d {
                out.push(DeduplicatedString::deserialize(&mut ctx)?.0);
            } else {
                out.push(String::deserialize(&mut ctx)?);
            }
        }
        Ok(out)
    })
    .0
}

// ---------------------------------------------------------------------------------------------

/// graph node owned by an `Rc`; identity offered to the stream = address of the node on the heap
pub struct Node {
    pub label: u8,
    pub edges: RefCell<Vec<Rc<Node>>>,
    me: Weak<Node>,
}

impl Node {
    pub fn new(label: u8) -> Rc<Node> {
        Rc::new_cyclic(|me| Node { label, edges: RefCell::new(Vec::new()), me: me.clone() })
    }
}

pub struct Graph {
    pub root: Rc<Node>,
}

fn write_body<O: BinaryOutput>(n: &Node, ctx: &mut SerializationContext<O>) -> Result<()> {
    ctx.write_u8(n.label);
    let edges = n.edges.borrow();
    ctx.write_u8(edges.len() as u8);
    for t in edges.iter() {
        let target: &Node = t;
        if ctx.store_ref_or_object(target)? {
            write_body(target, ctx)?;
        }
    }
    Ok(())
}

impl BinarySerializer for Graph {
    fn serialize<O: BinaryOutput>(&self, ctx: &mut SerializationContext<O>) -> Result<()> {
        let root: &Node = &self.root;
        if ctx.store_ref_or_object(root)? {
            write_body(root, ctx)?;
        }
        Ok(())
    }
}

fn read_node(ctx: &mut DeserializationContext<'_>, all: &mut Vec<Rc<Node>>) -> Result<Rc<Node>> {
    // reference or new object
    let known: Option<Rc<Node>> = match ctx.try_read_ref()? {
        Some(any) => {
            let n: &Node = any.downcast_ref::<Node>().expect("graph codec stores only nodes");
            Some(n.me.upgrade().expect("node alive"))
        }
        None => None,
    };
    if let Some(rc) = known {
        return Ok(rc);
    }
    let label = ctx.read_u8()?;
    let rc = Node::new(label);
    all.push(rc.clone());
    {
        let target: &Node = &rc;
        ctx.state_mut().store_ref(target);
    }
    let count = ctx.read_u8()?;
    for _ in 0..count {
        let t = read_node(ctx, all)?;
        rc.edges.borrow_mut().push(t);
    }
    Ok(rc)
}

pub struct Decoded {
    pub root: Rc<Node>,
    /// every node created while decoding (keeps them alive; cleared by `dispose`)
    pub all: Vec<Rc<Node>>,
}

impl Decoded {
    /// break reference cycles so that the graph is freed
    pub fn dispose(self) {
        for n in &self.all {
            n.edges.borrow_mut().clear();
        }
    }
}

/// does the stream's first reference resolve? (the returned reference is not touched: if the
/// library hands out a stale pointer, looking at it would be undefined behaviour in the harness)
pub fn first_ref_resolves(bytes: &[u8]) -> Out<bool> {
    guarded(|| {
        let mut ctx = DeserializationContext::new(bytes);
        Ok(ctx.try_read_ref()?.is_some())
    })
    .0
}

/// where the graph sits in the stream: alone, or as a field of a record written through the real
/// `Adt*` API (the way the derive macro's expansion does it)
#[derive(Clone, Copy, Debug, PartialEq, Eq)]
pub enum GraphPlace {
    Top,
    /// `{ pre: u8 = 7, g, post: u8 = 9 }`, no evolution steps
    V0Field,
    /// `{ pre, g, post, extra: u8 = 5 }` with `FieldAdded("extra")`: the graph is in chunk 0
    EvolvedChunk0,
    /// `{ pre, g, post }` with `FieldAdded("g")`: the graph is in chunk 1
    EvolvedChunk1,
}

pub const GRAPH_PLACES: [GraphPlace; 4] = [GraphPlace::Top, GraphPlace::V0Field, GraphPlace::EvolvedChunk0, GraphPlace::EvolvedChunk1];

fn place_metadata(place: GraphPlace) -> AdtMetadata {
    let mut steps = vec![Evolution::InitialVersion];
    match place {
        GraphPlace::EvolvedChunk0 => steps.push(Evolution::FieldAdded { name: "extra".into() }),
        GraphPlace::EvolvedChunk1 => steps.push(Evolution::FieldAdded { name: "g".into() }),
        _ => {}
    }
    AdtMetadata::new(steps)
}

struct Placed<'a, T> {
    x: &'a T,
    place: GraphPlace,
}

impl<T: BinarySerializer> BinarySerializer for Placed<'_, T> {
    fn serialize<O: BinaryOutput>(&self, ctx: &mut SerializationContext<O>) -> Result<()> {
        if self.place == GraphPlace::Top {
            return self.x.serialize(ctx);
        }
        let md = place_metadata(self.place);
        let mut s = if self.place == GraphPlace::V0Field { AdtSerializer::new_v0(&md, ctx) } else { AdtSerializer::new(&md, ctx) };
        s.write_field("pre", &7u8)?;
        s.write_field("g", self.x)?;
        s.write_field("post", &9u8)?;
        if self.place == GraphPlace::EvolvedChunk0 {
            s.write_field("extra", &5u8)?;
        }
        s.finish()
    }
}

/// any codec's value at a placement (see `GraphPlace`)
pub fn encode_at<T: BinarySerializer>(x: &T, place: GraphPlace) -> Out<Vec<u8>> {
    guarded(|| desert::serialize_to_byte_vec(&Placed { x, place })).0
}

/// the same through the three kinds of sink: bytes into a `Vec`, bytes into a `BytesMut`, and the
/// size a `SizeCalculator` reports
pub fn encode_at_sinks<T: BinarySerializer>(x: &T, place: GraphPlace) -> (Out<Vec<u8>>, Out<Vec<u8>>, Out<usize>) {
    let p = Placed { x, place };
    (
        guarded(|| desert::serialize(&p, Vec::new())).0,
        guarded(|| desert::serialize(&p, bytes::BytesMut::new()).map(|b| b.to_vec())).0,
        guarded(|| desert::serialize(&p, desert::SizeCalculator::new()).map(|s| s.size())).0,
    )
}

fn read_at<T: BinaryDeserializer>(ctx: &mut DeserializationContext<'_>, place: GraphPlace) -> Result<T> {
    if place == GraphPlace::Top {
        return T::deserialize(ctx);
    }
    let md = place_metadata(place);
    let stored_version = ctx.read_u8()?;
    let mut d = if stored_version == 0 { AdtDeserializer::new_v0(&md, ctx)? } else { AdtDeserializer::new(&md, ctx, stored_version)? };
    let pre: u8 = d.read_field("pre", None)?;
    let g: T = d.read_field("g", None)?;
    let post: u8 = d.read_field("post", None)?;
    let extra: u8 = if place == GraphPlace::EvolvedChunk0 { d.read_field("extra", None)? } else { 5 };
    if (pre, post, extra) != (7, 9, 5) {
        return Err(desert::Error::DeserializationFailure(format!("the sibling fields read back as pre={pre} post={post} extra={extra}")));
    }
    Ok(g)
}

pub fn decode_at<T: BinaryDeserializer>(bytes: &[u8], place: GraphPlace) -> Out<T> {
    guarded(|| {
        let mut ctx = DeserializationContext::new(bytes);
        read_at::<T>(&mut ctx, place)
    })
    .0
}

/// the bytes the format prescribes for a value whose own encoding is `inner`, at a placement
pub fn frame_at(inner: &[u8], place: GraphPlace) -> Vec<u8> {
    use refmodel::wire::vari;
    match place {
        GraphPlace::Top => inner.to_vec(),
        GraphPlace::V0Field => [&[0u8, 7][..], inner, &[9]].concat(),
        GraphPlace::EvolvedChunk0 => {
            let c0 = [&[7u8][..], inner, &[9]].concat();
            [&[1u8][..], &vari(c0.len() as i32), &vari(1), &c0, &[5]].concat()
        }
        GraphPlace::EvolvedChunk1 => [&[1u8][..], &vari(2), &vari(inner.len() as i32), &[7, 9], inner].concat(),
    }
}

/// a decoded graph as a field value; frees its cycles when dropped unless taken over
struct GraphD {
    root: Option<Rc<Node>>,
    all: Vec<Rc<Node>>,
}

impl Drop for GraphD {
    fn drop(&mut self) {
        for n in &self.all {
            n.edges.borrow_mut().clear();
        }
    }
}

impl BinaryDeserializer for GraphD {
    fn deserialize(ctx: &mut DeserializationContext<'_>) -> Result<Self> {
        let mut d = GraphD { root: None, all: Vec::new() };
        let r = read_node(ctx, &mut d.all)?;
        d.root = Some(r);
        Ok(d)
    }
}

pub fn graph_encode_at(g: &Graph, place: GraphPlace) -> Out<Vec<u8>> {
    encode_at(g, place)
}

pub fn graph_decode_at(bytes: &[u8], place: GraphPlace) -> Out<Decoded> {
    if place == GraphPlace::Top {
        return graph_decode(bytes);
    }
    decode_at::<GraphD>(bytes, place).map(|mut g| {
        let all = std::mem::take(&mut g.all);
        let root = g.root.take().expect("root");
        Decoded { root, all }
    })
}

/// offers `n` to the stream from code compiled in *this* crate: a non-generic function is
/// instantiated here whoever calls it, so the unsizing cast to `dyn Any` inside the library call
/// is the one of this crate's copy of `store_ref_or_object::<Node>`
#[inline(never)]
pub fn offer_node_from_bridge(n: &Node, ctx: &mut SerializationContext<Vec<u8>>) -> Result<bool> {
    ctx.store_ref_or_object(n)
}

pub fn graph_encode(g: &Graph) -> Out<Vec<u8>> {
    guarded(|| desert::serialize_to_byte_vec(g)).0
}

pub fn graph_decode(bytes: &[u8]) -> Out<Decoded> {
    let mut all = Vec::new();
    let (o, _) = guarded(|| {
        let mut ctx = DeserializationContext::new(bytes);
        read_node(&mut ctx, &mut all)
    });
    match o {
        Out::Ok(root) => Out::Ok(Decoded { root, all }),
        Out::Err(e) => {
            for n in &all {
                n.edges.borrow_mut().clear();
            }
            Out::Err(e)
        }
        Out::Panic(p) => Out::Panic(p),
    }
}

// ---------------------------------------------------------------------------------------------
// Two kinds of tracked objects that share an address: a node and the `Core` embedded at its
// offset 0. Both are offered to the stream as identities; they are distinct objects.

pub struct Core {
    pub tag: u8,
}

#[repr(C)]
pub struct WNode {
    pub core: Core,
    pub edges: RefCell<Vec<Rc<WNode>>>,
    /// edges to the *core* of another node (an identity of a different type at the same address)
    pub core_edges: RefCell<Vec<Rc<WNode>>>,
    me: Weak<WNode>,
}

impl WNode {
    pub fn new(tag: u8) -> Rc<WNode> {
        Rc::new_cyclic(|me| WNode { core: Core { tag }, edges: RefCell::new(Vec::new()), core_edges: RefCell::new(Vec::new()), me: me.clone() })
    }
}

pub struct WGraph {
    pub root: Rc<WNode>,
}

fn write_core<O: BinaryOutput>(c: &Core, ctx: &mut SerializationContext<O>) -> Result<()> {
    if ctx.store_ref_or_object(c)? {
        ctx.write_u8(c.tag);
    }
    Ok(())
}

fn write_wbody<O: BinaryOutput>(n: &WNode, ctx: &mut SerializationContext<O>) -> Result<()> {
    // the node's own core is a tracked object too
    write_core(&n.core, ctx)?;
    let edges = n.edges.borrow();
    ctx.write_u8(edges.len() as u8);
    for t in edges.iter() {
        let target: &WNode = t;
        if ctx.store_ref_or_object(target)? {
            write_wbody(target, ctx)?;
        }
    }
    let ce = n.core_edges.borrow();
    ctx.write_u8(ce.len() as u8);
    for t in ce.iter() {
        // a reference to the core of a node: if that core was not met yet, its tag follows
        write_core(&t.core, ctx)?;
    }
    Ok(())
}

impl BinarySerializer for WGraph {
    fn serialize<O: BinaryOutput>(&self, ctx: &mut SerializationContext<O>) -> Result<()> {
        let root: &WNode = &self.root;
        if ctx.store_ref_or_object(root)? {
            write_wbody(root, ctx)?;
        }
        Ok(())
    }
}

pub fn wgraph_encode(g: &WGraph) -> Out<Vec<u8>> {
    guarded(|| desert::serialize_to_byte_vec(g)).0
}

/// reader side of the table: register `cores.len()` cores and nodes alternately the way a
/// decoder of the stream above would, then resolve every id; returns which kind each id denotes
pub fn typed_lookup(n: usize) -> Out<Vec<String>> {
    guarded(|| {
        let input = [0u8];
        let mut ctx = DeserializationContext::new(&input);
        let nodes: Vec<Rc<WNode>> = (0..n).map(|i| WNode::new(i as u8)).collect();
        for nd in &nodes {
            let w: &WNode = nd;
            ctx.state_mut().store_ref(w);
            ctx.state_mut().store_ref(&w.core);
        }
        let mut out = Vec::new();
        for id in 1..=(2 * n as u32 + 1) {
            match ctx.state().get_ref_by_id(desert::RefId(id)) {
                Some(any) => {
                    if let Some(w) = any.downcast_ref::<WNode>() {
                        out.push(format!("node{}", w.core.tag));
                    } else if let Some(c) = any.downcast_ref::<Core>() {
                        out.push(format!("core{}", c.tag));
                    } else {
                        out.push("other".into());
                    }
                }
                None => out.push("none".into()),
            }
        }
        Ok(out)
    })
    .0
}
