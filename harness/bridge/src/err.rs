//! Observation of library results: mirror of `desert::Error`, outcome of a guarded call.
use std::cell::{Cell, RefCell};
use std::panic::{catch_unwind, AssertUnwindSafe};

#[derive(Clone, Debug, PartialEq, Eq, Hash)]
pub enum ErrKind {
    UnsupportedCharacter(u32),
    FailedToDecodeCharacter(u16),
    LengthTooLarge,
    InvalidTimeZone(String),
    InputEndedUnexpectedly,
    CompressionFailure,
    DecompressionFailure,
    FailedToDecodeString,
    InvalidStringId(i32),
    DeserializationFailure(String),
    UnknownFieldReferenceInEvolutionStep(String),
    InvalidConstructorName { constructor_name: String, type_name: String },
    DeserializingNonExistingChunk(u8),
    FieldRemovedInSerializedVersion(String),
    FieldWithoutDefaultValueIsMissing(String),
    NonOptionalFieldSerializedAsNone(String),
    InvalidRefId(u32),
    InvalidConstructorId { constructor_id: u32, type_name: String },
    DeserializingTransientConstructor { constructor_name: String, type_name: String },
    SerializingTransientConstructor { constructor_name: String, type_name: String },
}

impl From<desert::Error> for ErrKind {
    fn from(e: desert::Error) -> Self {
        use desert::Error as E;
        match e {
            E::UnsupportedCharacter(c) => ErrKind::UnsupportedCharacter(c as u32),
            E::FailedToDecodeCharacter(c) => ErrKind::FailedToDecodeCharacter(c),
            E::LengthTooLarge => ErrKind::LengthTooLarge,
            E::InvalidTimeZone(s) => ErrKind::InvalidTimeZone(s),
            E::InputEndedUnexpectedly => ErrKind::InputEndedUnexpectedly,
            E::CompressionFailure(_) => ErrKind::CompressionFailure,
            E::DecompressionFailure(_) => ErrKind::DecompressionFailure,
            E::FailedToDecodeString(_) => ErrKind::FailedToDecodeString,
            E::InvalidStringId(id) => ErrKind::InvalidStringId(id.0),
            E::DeserializationFailure(s) => ErrKind::DeserializationFailure(s),
            E::UnknownFieldReferenceInEvolutionStep(s) => ErrKind::UnknownFieldReferenceInEvolutionStep(s),
            E::InvalidConstructorName { constructor_name, type_name } => {
                ErrKind::InvalidConstructorName { constructor_name, type_name }
            }
            E::DeserializingNonExistingChunk(c) => ErrKind::DeserializingNonExistingChunk(c),
            E::FieldRemovedInSerializedVersion(s) => ErrKind::FieldRemovedInSerializedVersion(s),
            E::FieldWithoutDefaultValueIsMissing(s) => ErrKind::FieldWithoutDefaultValueIsMissing(s),
            E::NonOptionalFieldSerializedAsNone(s) => ErrKind::NonOptionalFieldSerializedAsNone(s),
            E::InvalidRefId(id) => ErrKind::InvalidRefId(id.0),
            E::InvalidConstructorId { constructor_id, type_name } => {
                ErrKind::InvalidConstructorId { constructor_id, type_name }
            }
            E::DeserializingTransientConstructor { constructor_name, type_name } => {
                ErrKind::DeserializingTransientConstructor { constructor_name, type_name }
            }
            E::SerializingTransientConstructor { constructor_name, type_name } => {
                ErrKind::SerializingTransientConstructor { constructor_name, type_name }
            }
        }
    }
}

impl ErrKind {
    pub fn variant(&self) -> &'static str {
        match self {
            ErrKind::UnsupportedCharacter(_) => "UnsupportedCharacter",
            ErrKind::FailedToDecodeCharacter(_) => "FailedToDecodeCharacter",
            ErrKind::LengthTooLarge => "LengthTooLarge",
            ErrKind::InvalidTimeZone(_) => "InvalidTimeZone",
            ErrKind::InputEndedUnexpectedly => "InputEndedUnexpectedly",
            ErrKind::CompressionFailure => "CompressionFailure",
            ErrKind::DecompressionFailure => "DecompressionFailure",
            ErrKind::FailedToDecodeString => "FailedToDecodeString",
            ErrKind::InvalidStringId(_) => "InvalidStringId",
            ErrKind::DeserializationFailure(_) => "DeserializationFailure",
            ErrKind::UnknownFieldReferenceInEvolutionStep(_) => "UnknownFieldReferenceInEvolutionStep",
            ErrKind::InvalidConstructorName { .. } => "InvalidConstructorName",
            ErrKind::DeserializingNonExistingChunk(_) => "DeserializingNonExistingChunk",
            ErrKind::FieldRemovedInSerializedVersion(_) => "FieldRemovedInSerializedVersion",
            ErrKind::FieldWithoutDefaultValueIsMissing(_) => "FieldWithoutDefaultValueIsMissing",
            ErrKind::NonOptionalFieldSerializedAsNone(_) => "NonOptionalFieldSerializedAsNone",
            ErrKind::InvalidRefId(_) => "InvalidRefId",
            ErrKind::InvalidConstructorId { .. } => "InvalidConstructorId",
            ErrKind::DeserializingTransientConstructor { .. } => "DeserializingTransientConstructor",
            ErrKind::SerializingTransientConstructor { .. } => "SerializingTransientConstructor",
        }
    }
}

/// what a guarded call into the library did
#[derive(Clone, Debug, PartialEq, Eq, Hash)]
pub enum Out<T> {
    Ok(T),
    Err(ErrKind),
    /// unwound; message and location
    Panic(String),
}

impl<T> Out<T> {
    pub fn is_ok(&self) -> bool {
        matches!(self, Out::Ok(_))
    }
    pub fn is_panic(&self) -> bool {
        matches!(self, Out::Panic(_))
    }
    pub fn map<U>(self, f: impl FnOnce(T) -> U) -> Out<U> {
        match self {
            Out::Ok(x) => Out::Ok(f(x)),
            Out::Err(e) => Out::Err(e),
            Out::Panic(p) => Out::Panic(p),
        }
    }
    pub fn class(&self) -> String {
        match self {
            Out::Ok(_) => "Ok".into(),
            Out::Err(e) => format!("Err({})", e.variant()),
            Out::Panic(_) => "Panic".into(),
        }
    }
}

thread_local! {
    static LAST_PANIC: RefCell<Option<String>> = const { RefCell::new(None) };
    /// largest single allocation request seen on this thread since the last reset
    pub static MAX_REQ: Cell<usize> = const { Cell::new(0) };
    /// set while a library call is being measured
    pub static MEASURING: Cell<bool> = const { Cell::new(false) };
}

/// install the silent panic hook (records message + location per thread)
/// message and location of the last panic on this thread (set by the hook)
pub fn take_last_panic() -> Option<String> {
    LAST_PANIC.with(|p| p.borrow_mut().take())
}

pub fn install_panic_hook() {
    std::panic::set_hook(Box::new(|info| {
        let msg = if let Some(s) = info.payload().downcast_ref::<&str>() {
            s.to_string()
        } else if let Some(s) = info.payload().downcast_ref::<String>() {
            s.clone()
        } else {
            "<non-string panic>".to_string()
        };
        let loc = info.location().map(|l| format!("{}:{}", l.file(), l.line())).unwrap_or_default();
        let _ = LAST_PANIC.try_with(|p| *p.borrow_mut() = Some(format!("{msg} @ {loc}")));
        if std::env::var_os("VERIF_SHOW_PANICS").is_some() {
            eprintln!("panic: {msg} @ {loc}");
        }
    }));
}

/// run a library call: unwinding is caught, the largest single allocation request is measured
pub fn guarded<T>(f: impl FnOnce() -> Result<T, desert::Error>) -> (Out<T>, usize) {
    MAX_REQ.with(|m| m.set(0));
    MEASURING.with(|m| m.set(true));
    let r = catch_unwind(AssertUnwindSafe(f));
    MEASURING.with(|m| m.set(false));
    let max = MAX_REQ.with(|m| m.get());
    let out = match r {
        Ok(Ok(x)) => Out::Ok(x),
        Ok(Err(e)) => Out::Err(e.into()),
        Err(_) => Out::Panic(LAST_PANIC.with(|p| p.borrow_mut().take()).unwrap_or_else(|| "<unknown>".into())),
    };
    (out, max)
}

/// same for calls that do not return a desert Result
pub fn guarded_plain<T>(f: impl FnOnce() -> T) -> (Out<T>, usize) {
    guarded(|| Ok(f()))
}

/// Counting allocator: records the largest single request made while a call is measured.
pub struct CountingAlloc;

unsafe impl std::alloc::GlobalAlloc for CountingAlloc {
    unsafe fn alloc(&self, layout: std::alloc::Layout) -> *mut u8 {
        note(layout.size());
        std::alloc::System.alloc(layout)
    }
    unsafe fn dealloc(&self, ptr: *mut u8, layout: std::alloc::Layout) {
        std::alloc::System.dealloc(ptr, layout)
    }
    unsafe fn alloc_zeroed(&self, layout: std::alloc::Layout) -> *mut u8 {
        note(layout.size());
        std::alloc::System.alloc_zeroed(layout)
    }
    unsafe fn realloc(&self, ptr: *mut u8, layout: std::alloc::Layout, new_size: usize) -> *mut u8 {
        note(new_size);
        std::alloc::System.realloc(ptr, layout, new_size)
    }
}

#[inline]
fn note(size: usize) {
    let _ = MEASURING.try_with(|m| {
        if m.get() {
            let _ = MAX_REQ.try_with(|r| {
                if size > r.get() {
                    r.set(size)
                }
            });
        }
    });
}
