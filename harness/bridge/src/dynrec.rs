//! Dynamic driver: runs the *real* record machinery (`adt::{AdtMetadata, AdtSerializer,
//! AdtDeserializer}`) and the real container codecs for a type that exists only as a descriptor,
//! calling them exactly as the derive macro's expansion does. Lets the checks explore far more
//! declarations / evolution histories than it is reasonable to compile.
use crate::bridge::{VarI, VarU};
use crate::err::{guarded, Out};
use desert::adt::{AdtDeserializer, AdtMetadata, AdtSerializer};
use desert::{
    BinaryDeserializer, BinaryInput, BinaryOutput, BinarySerializer, DeduplicatedString, DeserializationContext,
    Error, Evolution, Result, SerializationContext,
};
use refmodel::{EnumDescr, RecordDescr, Step, Ty, Val};
use std::cell::RefCell;

thread_local! {
    /// type the next `DynAny::deserialize` has to produce (top of stack)
    static EXPECT: RefCell<Vec<Ty>> = const { RefCell::new(Vec::new()) };
    /// enclosing named definitions, for `Ty::Named`
    static SCOPE: RefCell<Vec<(String, Ty)>> = const { RefCell::new(Vec::new()) };
}

fn with_expect<R>(ty: &Ty, f: impl FnOnce() -> R) -> R {
    EXPECT.with(|e| e.borrow_mut().push(ty.clone()));
    // keep the stack balanced also when the library unwinds through us
    struct Pop;
    impl Drop for Pop {
        fn drop(&mut self) {
            EXPECT.with(|e| {
                e.borrow_mut().pop();
            });
        }
    }
    let _p = Pop;
    f()
}

fn with_scope<R>(name: &str, ty: &Ty, f: impl FnOnce() -> R) -> R {
    SCOPE.with(|e| e.borrow_mut().push((name.to_string(), ty.clone())));
    struct Pop;
    impl Drop for Pop {
        fn drop(&mut self) {
            SCOPE.with(|e| {
                e.borrow_mut().pop();
            });
        }
    }
    let _p = Pop;
    f()
}

fn resolve(name: &str) -> Ty {
    SCOPE.with(|s| {
        s.borrow().iter().rev().find(|(n, _)| n == name).map(|(_, t)| t.clone()).unwrap_or_else(|| panic!("dyn: unresolved {name}"))
    })
}

/// reset thread-local driver state (after a caught unwind the stacks are already balanced by the
/// drop guards; this is for belt and braces between cases)
pub fn reset() {
    EXPECT.with(|e| e.borrow_mut().clear());
    SCOPE.with(|e| e.borrow_mut().clear());
}

#[derive(Clone, Debug, PartialEq, Eq, Hash)]
pub struct DynAny {
    pub ty: Ty,
    pub val: Val,
}

pub fn metadata(rd: &RecordDescr) -> AdtMetadata {
    let mut steps = vec![Evolution::InitialVersion];
    for s in &rd.steps {
        steps.push(match s {
            Step::Added(n) => Evolution::FieldAdded { name: n.clone() },
            Step::MadeOptional(n) => Evolution::FieldMadeOptional { name: n.clone() },
            Step::Removed(n) => Evolution::FieldRemoved { name: n.clone() },
            Step::MadeTransient(n) => Evolution::FieldMadeTransient { name: n.clone() },
        });
    }
    AdtMetadata::new(steps)
}

impl BinarySerializer for DynAny {
    fn serialize<O: BinaryOutput>(&self, ctx: &mut SerializationContext<O>) -> Result<()> {
        ser(&self.ty, &self.val, ctx)
    }
}

fn da(ty: &Ty, val: &Val) -> DynAny {
    DynAny { ty: ty.clone(), val: val.clone() }
}

fn ser<O: BinaryOutput>(ty: &Ty, v: &Val, ctx: &mut SerializationContext<O>) -> Result<()> {
    match ty {
        Ty::U8 => (v.as_u() as u8).serialize(ctx),
        Ty::I8 => (v.as_i() as i8).serialize(ctx),
        Ty::U16 => (v.as_u() as u16).serialize(ctx),
        Ty::I16 => (v.as_i() as i16).serialize(ctx),
        Ty::U32 => (v.as_u() as u32).serialize(ctx),
        Ty::I32 => (v.as_i() as i32).serialize(ctx),
        Ty::U64 => (v.as_u() as u64).serialize(ctx),
        Ty::I64 => (v.as_i() as i64).serialize(ctx),
        Ty::Bool => matches!(v, Val::Bool(true)).serialize(ctx),
        Ty::Unit => ().serialize(ctx),
        Ty::Str => v.as_str().to_string().serialize(ctx),
        Ty::DedupStr => DeduplicatedString(v.as_str().to_string()).serialize(ctx),
        Ty::VarU32 => VarU(v.as_u() as u32).serialize(ctx),
        Ty::VarI32 => VarI(v.as_i() as i32).serialize(ctx),
        Ty::ByteVec => v.as_bytes().to_vec().serialize(ctx),
        Ty::Opt(t) => match v {
            Val::Opt(o) => o.as_ref().map(|x| da(t, x)).serialize(ctx),
            o => panic!("dyn: opt {o:?}"),
        },
        Ty::Res(a, b) => match v {
            Val::Res(Ok(x)) => std::result::Result::<DynAny, DynAny>::Ok(da(a, x)).serialize(ctx),
            Val::Res(Err(x)) => std::result::Result::<DynAny, DynAny>::Err(da(b, x)).serialize(ctx),
            o => panic!("dyn: res {o:?}"),
        },
        Ty::Seq(refmodel::SeqKind::Vec, t) => {
            let xs: Vec<DynAny> = v.items().iter().map(|x| da(t, x)).collect();
            xs.serialize(ctx)
        }
        Ty::Array(n, t) => {
            let xs: Vec<DynAny> = v.items().iter().map(|x| da(t, x)).collect();
            match n {
                0 => <[DynAny; 0]>::try_from(xs).ok().unwrap().serialize(ctx),
                1 => <[DynAny; 1]>::try_from(xs).ok().unwrap().serialize(ctx),
                2 => <[DynAny; 2]>::try_from(xs).ok().unwrap().serialize(ctx),
                3 => <[DynAny; 3]>::try_from(xs).ok().unwrap().serialize(ctx),
                n => panic!("dyn: array length {n} not supported"),
            }
        }
        Ty::ByteArray(n) => {
            let b = v.as_bytes();
            match n {
                1 => <[u8; 1]>::try_from(b).unwrap().serialize(ctx),
                2 => <[u8; 2]>::try_from(b).unwrap().serialize(ctx),
                3 => <[u8; 3]>::try_from(b).unwrap().serialize(ctx),
                n => panic!("dyn: byte array length {n} not supported"),
            }
        }
        Ty::Tuple(ts) => {
            let xs = v.items();
            let d = |i: usize| da(&ts[i], &xs[i]);
            match ts.len() {
                1 => (d(0),).serialize(ctx),
                2 => (d(0), d(1)).serialize(ctx),
                3 => (d(0), d(1), d(2)).serialize(ctx),
                4 => (d(0), d(1), d(2), d(3)).serialize(ctx),
                5 => (d(0), d(1), d(2), d(3), d(4)).serialize(ctx),
                6 => (d(0), d(1), d(2), d(3), d(4), d(5)).serialize(ctx),
                7 => (d(0), d(1), d(2), d(3), d(4), d(5), d(6)).serialize(ctx),
                8 => (d(0), d(1), d(2), d(3), d(4), d(5), d(6), d(7)).serialize(ctx),
                n => panic!("dyn: tuple arity {n} not supported"),
            }
        }
        Ty::Named(n) => {
            let t = resolve(n);
            ser(&t, v, ctx)
        }
        Ty::Record(rd) => with_scope(&rd.name, ty, || ser_record(rd, v.items(), ctx)),
        Ty::Enum(ed) => with_scope(&ed.name, ty, || ser_enum(ed, v, ctx)),
        other => panic!("dyn: serialize: unsupported type {other:?}"),
    }
}

/// the macro's expansion for a struct / a variant body
fn ser_record<O: BinaryOutput>(rd: &RecordDescr, vals: &[Val], ctx: &mut SerializationContext<O>) -> Result<()> {
    let md = metadata(rd);
    let mut s = if rd.steps.is_empty() { AdtSerializer::new_v0(&md, ctx) } else { AdtSerializer::new(&md, ctx) };
    for (i, f) in rd.fields.iter().enumerate() {
        if f.transient.is_some() {
            continue;
        }
        s.write_field(&f.name, &da(&f.ty, &vals[i]))?;
    }
    s.finish()
}

fn ser_enum<O: BinaryOutput>(ed: &EnumDescr, v: &Val, ctx: &mut SerializationContext<O>) -> Result<()> {
    let (decl, fields) = match v {
        Val::Enum(d, f) => (*d, f),
        o => panic!("dyn: enum {o:?}"),
    };
    let md = AdtMetadata::new(vec![Evolution::InitialVersion]);
    let mut s = AdtSerializer::new_v0(&md, ctx);
    let var = &ed.variants[decl];
    if var.transient {
        return Err(Error::SerializingTransientConstructor {
            type_name: ed.name.clone(),
            constructor_name: var.name.clone(),
        });
    }
    let idx = ed.wire_index(decl);
    s.write_constructor(idx, |ctx| ser_record(&var.record, fields, ctx))?;
    s.finish()
}

impl BinaryDeserializer for DynAny {
    fn deserialize(ctx: &mut DeserializationContext<'_>) -> Result<Self> {
        let ty = EXPECT.with(|e| e.borrow().last().cloned()).expect("dyn: no expected type");
        let val = de(&ty, ctx)?;
        Ok(DynAny { ty, val })
    }
}

fn de(ty: &Ty, ctx: &mut DeserializationContext<'_>) -> Result<Val> {
    Ok(match ty {
        Ty::U8 => Val::U(u8::deserialize(ctx)? as u128),
        Ty::I8 => Val::I(i8::deserialize(ctx)? as i128),
        Ty::U16 => Val::U(u16::deserialize(ctx)? as u128),
        Ty::I16 => Val::I(i16::deserialize(ctx)? as i128),
        Ty::U32 => Val::U(u32::deserialize(ctx)? as u128),
        Ty::I32 => Val::I(i32::deserialize(ctx)? as i128),
        Ty::U64 => Val::U(u64::deserialize(ctx)? as u128),
        Ty::I64 => Val::I(i64::deserialize(ctx)? as i128),
        Ty::Bool => Val::Bool(bool::deserialize(ctx)?),
        Ty::Unit => Val::Unit,
        Ty::Str => Val::Str(String::deserialize(ctx)?),
        Ty::DedupStr => Val::Str(DeduplicatedString::deserialize(ctx)?.0),
        Ty::VarU32 => Val::U(VarU::deserialize(ctx)?.0 as u128),
        Ty::VarI32 => Val::I(VarI::deserialize(ctx)?.0 as i128),
        Ty::ByteVec => Val::Bytes(Vec::<u8>::deserialize(ctx)?),
        Ty::Opt(t) => {
            let o = with_expect(t, || Option::<DynAny>::deserialize(ctx))?;
            Val::Opt(o.map(|x| Box::new(x.val)))
        }
        Ty::Res(a, b) => {
            // the Ok and the Err branch expect different types: look at the tag the way the
            // library will, then let the real impl read it again from a cloned position
            let r = with_expect(a, || ResProbe::deserialize(ctx))?;
            match r {
                ResProbe::Ok(x) => Val::Res(Ok(Box::new(x.val))),
                ResProbe::ErrFollows => {
                    let e = with_expect(b, || DynAny::deserialize(ctx))?;
                    Val::Res(Err(Box::new(e.val)))
                }
            }
        }
        Ty::Seq(refmodel::SeqKind::Vec, t) => {
            let xs = with_expect(t, || Vec::<DynAny>::deserialize(ctx))?;
            Val::Seq(xs.into_iter().map(|x| x.val).collect())
        }
        Ty::Array(n, t) => {
            let xs: Vec<DynAny> = with_expect(t, || -> Result<Vec<DynAny>> {
                Ok(match n {
                    0 => <[DynAny; 0]>::deserialize(ctx)?.into_iter().collect(),
                    1 => <[DynAny; 1]>::deserialize(ctx)?.into_iter().collect(),
                    2 => <[DynAny; 2]>::deserialize(ctx)?.into_iter().collect(),
                    3 => <[DynAny; 3]>::deserialize(ctx)?.into_iter().collect(),
                    n => panic!("dyn: array length {n} not supported"),
                })
            })?;
            Val::Seq(xs.into_iter().map(|x| x.val).collect())
        }
        Ty::ByteArray(n) => Val::Bytes(match n {
            1 => <[u8; 1]>::deserialize(ctx)?.to_vec(),
            2 => <[u8; 2]>::deserialize(ctx)?.to_vec(),
            3 => <[u8; 3]>::deserialize(ctx)?.to_vec(),
            n => panic!("dyn: byte array length {n} not supported"),
        }),
        Ty::Tuple(ts) => {
            SLOTS.with(|s| s.borrow_mut().push(ts.to_vec()));
            let _p = PopSlots;
            Val::Tuple(match ts.len() {
                1 => {
                    let t = <(Slot<0>,)>::deserialize(ctx)?;
                    vec![t.0 .0]
                }
                2 => {
                    let t = <(Slot<0>, Slot<1>)>::deserialize(ctx)?;
                    vec![t.0 .0, t.1 .0]
                }
                3 => {
                    let t = <(Slot<0>, Slot<1>, Slot<2>)>::deserialize(ctx)?;
                    vec![t.0 .0, t.1 .0, t.2 .0]
                }
                4 => {
                    let t = <(Slot<0>, Slot<1>, Slot<2>, Slot<3>)>::deserialize(ctx)?;
                    vec![t.0 .0, t.1 .0, t.2 .0, t.3 .0]
                }
                5 => {
                    let t = <(Slot<0>, Slot<1>, Slot<2>, Slot<3>, Slot<4>)>::deserialize(ctx)?;
                    vec![t.0 .0, t.1 .0, t.2 .0, t.3 .0, t.4 .0]
                }
                6 => {
                    let t = <(Slot<0>, Slot<1>, Slot<2>, Slot<3>, Slot<4>, Slot<5>)>::deserialize(ctx)?;
                    vec![t.0 .0, t.1 .0, t.2 .0, t.3 .0, t.4 .0, t.5 .0]
                }
                7 => {
                    let t = <(Slot<0>, Slot<1>, Slot<2>, Slot<3>, Slot<4>, Slot<5>, Slot<6>)>::deserialize(ctx)?;
                    vec![t.0 .0, t.1 .0, t.2 .0, t.3 .0, t.4 .0, t.5 .0, t.6 .0]
                }
                8 => {
                    let t = <(Slot<0>, Slot<1>, Slot<2>, Slot<3>, Slot<4>, Slot<5>, Slot<6>, Slot<7>)>::deserialize(ctx)?;
                    vec![t.0 .0, t.1 .0, t.2 .0, t.3 .0, t.4 .0, t.5 .0, t.6 .0, t.7 .0]
                }
                n => panic!("dyn: tuple arity {n} not supported"),
            })
        }
        Ty::Named(n) => {
            let t = resolve(n);
            de(&t, ctx)?
        }
        Ty::Record(rd) => Val::Rec(with_scope(&rd.name, ty, || de_record(rd, ctx))?),
        Ty::Enum(ed) => with_scope(&ed.name, ty, || de_enum(ed, ctx))?,
        other => panic!("dyn: deserialize: unsupported type {other:?}"),
    })
}

/// `Result<R, E>` with different dynamic types per branch: the real `Result` impl is used for the
/// `Ok` branch; for tag 0 the real impl would call `E::deserialize`, which this probe type defers.
enum ResProbe {
    Ok(DynAny),
    ErrFollows,
}

struct ErrMarker;
impl BinaryDeserializer for ErrMarker {
    fn deserialize(_: &mut DeserializationContext<'_>) -> Result<Self> {
        Ok(ErrMarker)
    }
}

impl ResProbe {
    fn deserialize(ctx: &mut DeserializationContext<'_>) -> Result<Self> {
        // real impl: reads the tag, dispatches to R::deserialize (DynAny, expecting `a`) or to
        // E::deserialize (ErrMarker: consumes nothing, so the Err payload is read right after)
        match std::result::Result::<DynAny, ErrMarker>::deserialize(ctx)? {
            Ok(x) => Ok(ResProbe::Ok(x)),
            Err(ErrMarker) => Ok(ResProbe::ErrFollows),
        }
    }
}

/// tuple slots with per-position expected types: each slot takes its type from a thread-local
/// list indexed by the const parameter
struct Slot<const I: usize>(Val);

thread_local! {
    static SLOTS: RefCell<Vec<Vec<Ty>>> = const { RefCell::new(Vec::new()) };
}

impl<const I: usize> BinaryDeserializer for Slot<I> {
    fn deserialize(ctx: &mut DeserializationContext<'_>) -> Result<Self> {
        let ty = SLOTS.with(|s| s.borrow().last().expect("dyn: slot types")[I].clone());
        Ok(Slot(de(&ty, ctx)?))
    }
}

struct PopSlots;
impl Drop for PopSlots {
    fn drop(&mut self) {
        SLOTS.with(|s| {
            s.borrow_mut().pop();
        });
    }
}

fn opt_dyn(inner: &Ty, v: &Val) -> Option<DynAny> {
    match v {
        Val::Opt(o) => o.as_ref().map(|x| da(inner, x)),
        o => panic!("dyn: optional default {o:?}"),
    }
}

/// the macro's expansion of the field reads of a struct / variant body, after the version byte
fn de_fields(rd: &RecordDescr, d: &mut AdtDeserializer<'_, '_, '_>) -> Result<Vec<Val>> {
    let mut out = Vec::with_capacity(rd.fields.len());
    for f in &rd.fields {
        if let Some(dv) = &f.transient {
            out.push(dv.clone());
            continue;
        }
        if f.is_option {
            let inner = match &f.ty {
                Ty::Opt(t) => (**t).clone(),
                o => panic!("dyn: is_option field of type {o:?}"),
            };
            let default = f.default.as_ref().map(|dv| opt_dyn(&inner, dv));
            let r = with_expect(&inner, || d.read_optional_field::<DynAny>(&f.name, default))?;
            out.push(Val::Opt(r.map(|x| Box::new(x.val))));
        } else {
            let default = f.default.as_ref().map(|dv| da(&f.ty, dv));
            let r = with_expect(&f.ty, || d.read_field::<DynAny>(&f.name, default))?;
            out.push(r.val);
        }
    }
    Ok(out)
}

fn de_record(rd: &RecordDescr, ctx: &mut DeserializationContext<'_>) -> Result<Vec<Val>> {
    let md = metadata(rd);
    let stored_version = ctx.read_u8()?;
    if stored_version == 0 {
        let mut d = AdtDeserializer::new_v0(&md, ctx)?;
        de_fields(rd, &mut d)
    } else {
        let mut d = AdtDeserializer::new(&md, ctx, stored_version)?;
        de_fields(rd, &mut d)
    }
}

fn de_enum(ed: &EnumDescr, ctx: &mut DeserializationContext<'_>) -> Result<Val> {
    let md = AdtMetadata::new(vec![Evolution::InitialVersion]);
    let stored_version = ctx.read_u8()?;
    let mut d = if stored_version == 0 {
        AdtDeserializer::new_v0(&md, ctx)?
    } else {
        AdtDeserializer::new(&md, ctx, stored_version)?
    };
    for (idx, &decl) in ed.order().iter().enumerate() {
        let var = &ed.variants[decl];
        if var.transient {
            let _: Option<Val> = d.read_constructor(idx as u32, |_| {
                Err(Error::DeserializingTransientConstructor {
                    type_name: ed.name.clone(),
                    constructor_name: var.name.clone(),
                })
            })?;
        } else if let Some(fields) = d.read_constructor(idx as u32, |ctx| de_record(&var.record, ctx))? {
            return Ok(Val::Enum(decl, fields));
        }
    }
    // the macro's expansion ends with this call
    d.unknown_constructor(&ed.name)
}

pub fn dyn_encode(ty: &Ty, v: &Val) -> Out<Vec<u8>> {
    reset();
    let x = da(ty, v);
    guarded(|| desert::serialize_to_byte_vec(&x)).0
}

pub fn dyn_decode(ty: &Ty, b: &[u8]) -> Out<Val> {
    reset();
    guarded(|| {
        let mut ctx = DeserializationContext::new(b);
        with_expect(ty, || DynAny::deserialize(&mut ctx)).map(|x| x.val)
    })
    .0
}

/// decode, then report the bytes still readable from the context
pub fn dyn_decode_rest(ty: &Ty, b: &[u8]) -> (Out<Val>, Option<Vec<u8>>) {
    reset();
    let mut ctx = DeserializationContext::new(b);
    let (o, _) = guarded(|| with_expect(ty, || DynAny::deserialize(&mut ctx)).map(|x| x.val));
    let rest = if o.is_panic() { None } else { crate::entry::drain(&mut ctx) };
    (o, rest)
}
