//! Monomorphic entry points into the real library, one small table row per concrete type.
use crate::bridge::Bridge;
use crate::err::{guarded, Out};
use bytes::BytesMut;
use desert::{BinaryInput, BinaryOutput, DeserializationContext, SizeCalculator};
use refmodel::{Ty, Val};

#[derive(Clone, Copy, Debug, PartialEq, Eq, Hash)]
pub enum Sink {
    /// `serialize(&v, Vec::new())`
    Vec,
    /// `serialize(&v, BytesMut::new())`
    BytesMut,
    /// `serialize_to_bytes`
    ToBytes,
    /// `serialize_to_byte_vec`
    ToByteVec,
    /// `serialize(&v, SizeCalculator::new()).size()` - yields a length only
    Size,
    /// a user-defined `BinaryOutput` that records every write call
    Recording,
    /// the same instance through `serialize_to_byte_vec` twice: first ++ second, `size` = len(first)
    ToByteVecTwice,
}

pub const ALL_SINKS: [Sink; 6] = [Sink::ToByteVec, Sink::Vec, Sink::BytesMut, Sink::ToBytes, Sink::Size, Sink::Recording];

/// user-defined output: concatenation of its write calls, plus the call log
#[derive(Default)]
pub struct Recording {
    pub bytes: Vec<u8>,
    pub calls: usize,
}

impl BinaryOutput for Recording {
    fn write_u8(&mut self, value: u8) {
        self.calls += 1;
        self.bytes.push(value);
    }
    fn write_bytes(&mut self, bytes: &[u8]) {
        self.calls += 1;
        self.bytes.extend_from_slice(bytes);
    }
}

#[derive(Clone, Debug)]
pub struct EncRun {
    /// bytes (for `Sink::Size`: empty, see `size`)
    pub out: Out<Vec<u8>>,
    pub size: Option<usize>,
    /// the very instance that was serialized, as a value (hash containers: its iteration order)
    pub actual: Val,
    pub max_alloc: usize,
}

#[derive(Clone, Debug)]
pub struct DecRun {
    pub out: Out<Val>,
    pub max_alloc: usize,
    /// bytes still readable from the context afterwards (`dec_ctx` only)
    pub rest: Option<Vec<u8>>,
}

pub struct Entry {
    pub name: String,
    pub ty: Ty,
    /// one instance of the value, serialized through each of the given sinks
    pub enc: fn(&Val, &[Sink]) -> Vec<EncRun>,
    pub dec: fn(&[u8]) -> DecRun,
    pub dec_ctx: fn(&[u8]) -> DecRun,
    /// decode and drop the value without converting it (huge zero-width containers)
    pub dec_discard: fn(&[u8]) -> DecRun,
    /// serialize the elements as a slice `&[T]` (only for `Vec<T>` rows with `T: 'static`)
    pub enc_slice: Option<fn(&Val) -> EncRun>,
    /// derived declaration (vs. built-in type expression)
    pub derived: bool,
    pub tags: Vec<&'static str>,
}

/// One output type for the direct `serialize(value, output)` entry point, so that every value
/// type needs a single instantiation of it: each write is handed to the real `BinaryOutput` impl
/// of the chosen sink.
pub enum AnySink {
    Vec(Vec<u8>),
    BytesMut(BytesMut),
    Size(SizeCalculator),
    Rec(Recording),
}

macro_rules! forward {
    ($self:ident, $m:ident ( $($a:expr),* )) => {
        match $self {
            AnySink::Vec(o) => o.$m($($a),*),
            AnySink::BytesMut(o) => o.$m($($a),*),
            AnySink::Size(o) => o.$m($($a),*),
            AnySink::Rec(o) => o.$m($($a),*),
        }
    };
}

/// every method of the trait is handed to the chosen sink's own implementation (including any
/// default method the sink overrides), so the wrapper adds no behaviour of its own
impl BinaryOutput for AnySink {
    fn write_u8(&mut self, value: u8) {
        forward!(self, write_u8(value))
    }
    fn write_bytes(&mut self, bytes: &[u8]) {
        forward!(self, write_bytes(bytes))
    }
    fn write_i8(&mut self, value: i8) {
        forward!(self, write_i8(value))
    }
    fn write_u16(&mut self, value: u16) {
        forward!(self, write_u16(value))
    }
    fn write_i16(&mut self, value: i16) {
        forward!(self, write_i16(value))
    }
    fn write_u32(&mut self, value: u32) {
        forward!(self, write_u32(value))
    }
    fn write_i32(&mut self, value: i32) {
        forward!(self, write_i32(value))
    }
    fn write_u64(&mut self, value: u64) {
        forward!(self, write_u64(value))
    }
    fn write_i64(&mut self, value: i64) {
        forward!(self, write_i64(value))
    }
    fn write_u128(&mut self, value: u128) {
        forward!(self, write_u128(value))
    }
    fn write_i128(&mut self, value: i128) {
        forward!(self, write_i128(value))
    }
    fn write_f32(&mut self, value: f32) {
        forward!(self, write_f32(value))
    }
    fn write_f64(&mut self, value: f64) {
        forward!(self, write_f64(value))
    }
    fn write_var_u32(&mut self, value: u32) {
        forward!(self, write_var_u32(value))
    }
    fn write_var_i32(&mut self, value: i32) {
        forward!(self, write_var_i32(value))
    }
    fn write_compressed(&mut self, bytes: &[u8], opts: flate2::Compression) -> desert::Result<()> {
        forward!(self, write_compressed(bytes, opts))
    }
}

fn enc_with<T: desert::BinarySerializer>(x: &T, sink: Sink) -> (Out<Vec<u8>>, Option<usize>, usize) {
    match sink {
        Sink::ToBytes => {
            let (o, m) = guarded(|| desert::serialize_to_bytes(x));
            (o.map(|b| b.to_vec()), None, m)
        }
        Sink::ToByteVec => {
            let (o, m) = guarded(|| desert::serialize_to_byte_vec(x));
            (o, None, m)
        }
        Sink::ToByteVecTwice => {
            let (a, m) = guarded(|| desert::serialize_to_byte_vec(x));
            let (b, _) = guarded(|| desert::serialize_to_byte_vec(x));
            match (a, b) {
                (Out::Ok(mut a), Out::Ok(b)) => {
                    let n = a.len();
                    a.extend_from_slice(&b);
                    (Out::Ok(a), Some(n), m)
                }
                (Out::Ok(_), other) | (other, _) => (other, None, m),
            }
        }
        Sink::Vec | Sink::BytesMut | Sink::Size | Sink::Recording => {
            let s = match sink {
                Sink::Vec => AnySink::Vec(Vec::new()),
                Sink::BytesMut => AnySink::BytesMut(BytesMut::new()),
                Sink::Size => AnySink::Size(SizeCalculator::new()),
                _ => AnySink::Rec(Recording::default()),
            };
            let (o, m) = guarded(|| desert::serialize(x, s));
            match o {
                Out::Ok(AnySink::Vec(v)) => (Out::Ok(v), None, m),
                Out::Ok(AnySink::BytesMut(v)) => (Out::Ok(v.to_vec()), None, m),
                Out::Ok(AnySink::Size(c)) => (Out::Ok(Vec::new()), Some(c.size()), m),
                Out::Ok(AnySink::Rec(r)) => (Out::Ok(r.bytes), Some(r.calls), m),
                Out::Err(e) => (Out::Err(e), None, m),
                Out::Panic(p) => (Out::Panic(p), None, m),
            }
        }
    }
}

pub fn enc<T: Bridge>(v: &Val, sinks: &[Sink]) -> Vec<EncRun> {
    let x = T::from_val(v);
    let actual = x.to_val();
    sinks
        .iter()
        .map(|s| {
            let (out, size, max_alloc) = enc_with(&x, *s);
            EncRun { out, size, actual: actual.clone(), max_alloc }
        })
        .collect()
}

pub fn enc_slice<T: Bridge + 'static>(v: &Val) -> EncRun {
    let x: Vec<T> = Vec::<T>::from_val(v);
    let actual = x.to_val();
    let s: &[T] = &x[..];
    let (o, m) = guarded(|| desert::serialize_to_byte_vec(&s));
    EncRun { out: o, size: None, actual, max_alloc: m }
}

pub fn dec<T: Bridge>(b: &[u8]) -> DecRun {
    let (o, m) = guarded(|| desert::deserialize::<T>(b));
    DecRun { out: o.map(|x| x.to_val()), max_alloc: m, rest: None }
}

pub fn dec_discard<T: Bridge>(b: &[u8]) -> DecRun {
    let (o, m) = guarded(|| desert::deserialize::<T>(b));
    DecRun { out: o.map(|_| refmodel::Val::Unit), max_alloc: m, rest: None }
}

/// drain what is still readable from the context through its public `BinaryInput` impl
/// (a library call like any other: `None` when it unwinds; it stops after 2^20 bytes - no input of
/// the harness is that long, so a reader that never reports the end cannot hang the check)
pub fn drain(ctx: &mut DeserializationContext<'_>) -> Option<Vec<u8>> {
    std::panic::catch_unwind(std::panic::AssertUnwindSafe(|| {
        let mut rest = Vec::new();
        while let Ok(b) = ctx.read_u8() {
            rest.push(b);
            if rest.len() > 1 << 20 {
                break;
            }
        }
        rest
    }))
    .ok()
}

pub fn dec_ctx<T: Bridge>(b: &[u8]) -> DecRun {
    let mut ctx = DeserializationContext::new(b);
    let (o, m) = guarded(|| T::deserialize(&mut ctx));
    let rest = if o.is_panic() { None } else { drain(&mut ctx) };
    DecRun { out: o.map(|x| x.to_val()), max_alloc: m, rest }
}

pub fn entry<T: Bridge>(name: &str) -> Entry {
    Entry {
        name: name.to_string(),
        ty: T::ty(),
        enc: enc::<T>,
        dec: dec::<T>,
        dec_ctx: dec_ctx::<T>,
        dec_discard: dec_discard::<T>,
        enc_slice: None,
        derived: false,
        tags: vec![],
    }
}

/// row for `Vec<T>` that can also serialize its elements as a slice
pub fn entry_vec<T: Bridge + 'static>(name: &str) -> Entry {
    let mut e = entry::<Vec<T>>(name);
    e.enc_slice = Some(enc_slice::<T>);
    e
}

pub fn derived<T: Bridge>(name: &str, tags: &[&'static str]) -> Entry {
    let mut e = entry::<T>(name);
    e.derived = true;
    e.tags = tags.to_vec();
    e
}
