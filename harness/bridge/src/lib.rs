//! Binds the real library (/repo, path dependency) to the reference model.
pub mod bridge;
pub mod dynrec;
pub mod entry;
pub mod err;
pub mod rt;
pub mod tables;

pub use bridge::{Bridge, VarI, VarU};
pub use entry::{derived, entry, entry_vec, DecRun, EncRun, Entry, Sink, ALL_SINKS};
pub use err::{guarded, guarded_plain, install_panic_hook, ErrKind, Out};
