//! C12 (container / size-form independence), C16 (compressed blocks), C17 (encoding never panics).
use crate::common::{self, U};
use bridge::dynrec::dyn_encode;
use bridge::err::{guarded, guarded_plain};
use bridge::rt::{hex, par_items, val_json, Run, Stats};
use bridge::{Entry, ErrKind, Out, Sink};
use bytes::BytesMut;
use desert::{BinaryInput, BinaryOutput, DeserializationContext, OwnedInput, SerializationContext, SliceInput};
use refmodel::spec;
use refmodel::values::{leaf_values, values};
use refmodel::*;
use serde_json::json;
use std::sync::Arc;

// ------------------------------------------------------------------------------------------ C12

struct C12Item {
    elem_rust: String,
    elem_ty: Ty,
    xs: Vec<Val>,
    idx: usize,
}

fn lists(elems: &[Val], max_len: usize) -> Vec<Vec<Val>> {
    let mut out: Vec<Vec<Val>> = vec![vec![]];
    let mut frontier: Vec<Vec<Val>> = vec![vec![]];
    for _ in 0..max_len {
        let mut next = Vec::new();
        for p in &frontier {
            for e in elems {
                let mut q = p.clone();
                q.push(e.clone());
                next.push(q);
            }
        }
        out.extend(next.iter().cloned());
        frontier = next;
    }
    out
}

fn is_set(name: &str) -> bool {
    name.contains("HashSet") || name.contains("BTreeSet")
}

fn array_len(name: &str) -> Option<usize> {
    if name.starts_with('[') {
        name.rsplit("; ").next().and_then(|s| s.trim_end_matches(']').parse().ok())
    } else {
        None
    }
}

fn c12_case(u: &U, it: &C12Item, st: &mut Stats) {
    let key = format!("c12:{}#{}", it.elem_rust, it.idx);
    // u8 elements: Vec<u8> and [u8; N] are byte containers with their own form (c12_bytes); the
    // other containers of u8 are ordinary sequences and interchangeable among themselves
    let containers: Vec<String> = spec::c12_containers(&it.elem_rust).into_iter().filter(|c| it.elem_rust != "u8" || !(c.starts_with("Vec<") || c.starts_with('['))).collect();
    let n = it.xs.len();
    let seq_val = Val::Seq(it.xs.clone());
    // encodings: every source container that can hold the list, plus the slice, plus the
    // reference-built unknown-size form
    let mut encodings: Vec<(String, Vec<u8>, Vec<Val>)> = Vec::new();
    for c in &containers {
        if let Some(l) = array_len(c) {
            if l != n {
                continue;
            }
        }
        let e = u.get(c);
        let r = &(e.enc)(&seq_val, &[Sink::ToByteVec])[0];
        st.transitions += 1;
        match (&r.out, &r.actual) {
            (Out::Ok(b), Val::Seq(order)) => encodings.push((c.clone(), b.clone(), order.clone())),
            (o, _) => {
                st.violate(format!("C12 source-encode source={c} outcome={}", o.class()), key.clone(), json!({"list": val_json(&seq_val), "result": format!("{o:?}")}));
                return;
            }
        }
        if c.starts_with("Vec<") {
            if let Some(f) = e.enc_slice {
                let r = f(&seq_val);
                st.transitions += 1;
                match &r.out {
                    Out::Ok(b) => encodings.push((format!("&[{}]", it.elem_rust), b.clone(), it.xs.clone())),
                    o => {
                        st.violate(format!("C12 source-encode source=slice outcome={}", o.class()), key.clone(), json!({"list": val_json(&seq_val)}));
                        return;
                    }
                }
            }
        }
    }
    let vec_ty = Ty::Seq(SeqKind::Vec, Box::new(it.elem_ty.clone()));
    let (ub, _) = ref_encode_forms(&vec_ty, &seq_val, Forms { seq_unknown: vec![true], ..Default::default() }).expect("model");
    encodings.push(("reference:unknown-size-form".into(), ub.b, it.xs.clone()));
    let (kb, _) = ref_encode_forms(&vec_ty, &seq_val, Forms::default()).expect("model");
    encodings.push(("reference:known-size-form".into(), kb.b, it.xs.clone()));

    for (src, bytes, order) in &encodings {
        for c in &containers {
            let e = u.get(c);
            st.states += 1;
            let mut input = bytes.clone();
            input.push(0xee);
            let d = (e.dec_ctx)(&input);
            st.transitions += 1;
            st.validated += 1;
            let distinct: std::collections::BTreeSet<&Val> = order.iter().collect();
            let ok = match array_len(c) {
                Some(l) if l != order.len() => matches!(d.out, Out::Err(_)),
                _ => {
                    // what the elements denote in the target container
                    let want = canon(&e.ty, &Val::Seq(order.clone()));
                    let _ = &distinct;
                    matches!(&d.out, Out::Ok(g) if canon(&e.ty, g) == want) && d.rest.as_deref() == Some(&[0xee][..])
                }
            };
            if !ok {
                st.violate(
                    format!("C12 source={src} target={c} outcome={}", d.out.class()),
                    key.clone(),
                    json!({"elements_in_stream_order": val_json(&Val::Seq(order.clone())), "bytes": hex(bytes), "unread_after_decode": d.rest.as_ref().map(|r| hex(r)), "result": format!("{:?}", d.out).chars().take(300).collect::<String>()}),
                );
                return;
            }
            st.bump(if array_len(c).map(|l| l != order.len()).unwrap_or(false) { "array-length-mismatch:Err" } else if is_set(c) { "into-set" } else { "into-ordered" });
            if src != c {
                st.nontrivial += 1;
            }
        }
    }
    if it.idx == 5 {
        st.sample(json!({"element_type": it.elem_rust, "list": val_json(&seq_val), "sources": encodings.iter().map(|e| e.0.clone()).collect::<Vec<_>>()}));
    }
}

fn c12_maps(u: &U, st: &mut Stats) {
    for (k, v) in spec::c12_map_types() {
        let cs = spec::c12_map_containers(k, v);
        let kt = u.get(&cs[1]).ty.clone();
        let (kty, vty) = match &kt {
            Ty::Map(_, a, b) => ((**a).clone(), (**b).clone()),
            _ => unreachable!(),
        };
        let ks: Vec<Val> = leaf_values(&kty).into_iter().take(3).collect();
        let vs: Vec<Val> = leaf_values(&vty).into_iter().take(2).collect();
        let mut pairs = Vec::new();
        for a in &ks {
            for b in &vs {
                pairs.push(Val::Tuple(vec![a.clone(), b.clone()]));
            }
        }
        for (li, l) in lists(&pairs, 3).into_iter().enumerate() {
            // distinct keys only: a list of pairs denotes a map
            let mut seen = std::collections::HashSet::new();
            if !l.iter().all(|p| seen.insert(p.items()[0].clone())) {
                continue;
            }
            let key = format!("c12map:{k},{v}#{li}");
            let as_seq = Val::Seq(l.clone());
            let as_map = Val::Map(l.iter().map(|p| (p.items()[0].clone(), p.items()[1].clone())).collect());
            let mut encodings: Vec<(String, Vec<u8>, Vec<Val>)> = Vec::new();
            for (ci, c) in cs.iter().enumerate() {
                let e = u.get(c);
                let r = &(e.enc)(if ci == 0 { &as_seq } else { &as_map }, &[Sink::ToByteVec])[0];
                st.transitions += 1;
                let order: Vec<Val> = match &r.actual {
                    Val::Seq(xs) => xs.clone(),
                    Val::Map(xs) => xs.iter().map(|(a, b)| Val::Tuple(vec![a.clone(), b.clone()])).collect(),
                    _ => unreachable!(),
                };
                if let Out::Ok(b) = &r.out {
                    encodings.push((c.clone(), b.clone(), order));
                } else {
                    st.violate(format!("C12 map-source-encode source={c}"), key.clone(), json!({}));
                    return;
                }
            }
            let pair_ty = Ty::Tuple(vec![kty.clone(), vty.clone()]);
            let vt = Ty::Seq(SeqKind::Vec, Box::new(pair_ty));
            let (ub, _) = ref_encode_forms(&vt, &as_seq, Forms { seq_unknown: vec![true], ..Default::default() }).expect("model");
            encodings.push(("reference:unknown-size-form".into(), ub.b, l.clone()));
            for (src, bytes, order) in &encodings {
                for (ci, c) in cs.iter().enumerate() {
                    let e = u.get(c);
                    st.states += 1;
                    let mut input = bytes.clone();
                    input.push(0xee);
                    let d = (e.dec_ctx)(&input);
                    st.transitions += 1;
                    st.validated += 1;
                    let want = if ci == 0 {
                        Val::Seq(order.clone())
                    } else {
                        Val::Map(order.iter().map(|p| (p.items()[0].clone(), p.items()[1].clone())).collect())
                    };
                    let ok = matches!(&d.out, Out::Ok(g) if canon(&e.ty, g) == canon(&e.ty, &want)) && d.rest.as_deref() == Some(&[0xee][..]);
                    if !ok {
                        st.violate(
                            format!("C12 source={src} target={c} outcome={}", d.out.class()),
                            key.clone(),
                            json!({"pairs": val_json(&Val::Seq(order.clone())), "bytes": hex(bytes), "result": format!("{:?}", d.out).chars().take(300).collect::<String>()}),
                        );
                        return;
                    }
                    st.bump("map-family");
                    if src != c {
                        st.nontrivial += 1;
                    }
                }
            }
        }
    }
}

/// many sequences in one stream: an outer sequence of N one-element sequences, every combination
/// of size forms by level, read as every nested container. What a decoder keeps per sequence
/// (counters, depth, scratch) must not add up over siblings.
fn c12_many(u: &U, st: &mut Stats, thorough: bool) {
    let targets = [
        "Vec<Vec<String>>",
        "Vec<std::collections::LinkedList<String>>",
        "std::collections::BTreeSet<Vec<String>>",
        "std::collections::BTreeSet<std::collections::LinkedList<String>>",
    ];
    let model_ty = Ty::Seq(SeqKind::Vec, Box::new(Ty::Seq(SeqKind::Vec, Box::new(Ty::Str))));
    let mut sizes = vec![2usize, 127, 128, 129, 300];
    if thorough {
        sizes.extend([1000, 5000]);
    }
    for n in sizes {
        let v = Val::Seq((0..n).map(|i| Val::Seq(vec![Val::Str(format!("{i:05}"))])).collect());
        // forms by level: (outer unknown?, inner unknown?) plus alternating inner forms
        let mut shapes: Vec<(String, Vec<bool>)> = Vec::new();
        for (name, outer, inner) in [("known/known", false, false), ("known/unknown", false, true), ("unknown/known", true, false), ("unknown/unknown", true, true)] {
            let mut f = vec![outer];
            f.extend(std::iter::repeat(inner).take(n));
            shapes.push((name.to_string(), f));
        }
        let mut alt = vec![false];
        alt.extend((0..n).map(|i| i % 2 == 0));
        shapes.push(("known/alternating".into(), alt));
        for (shape, flags) in shapes {
            let key = format!("c12many:{n}:{shape}");
            let (b, _) = ref_encode_forms(&model_ty, &v, Forms { seq_unknown: flags, ..Default::default() }).expect("model");
            let mut input = b.b.clone();
            input.push(0xee);
            for t in targets {
                let e = u.get(t);
                st.states += 1;
                st.transitions += 1;
                st.validated += 1;
                let d = (e.dec_ctx)(&input);
                let ok = matches!(&d.out, Out::Ok(g) if canon(&e.ty, g) == canon(&e.ty, &v)) && d.rest.as_deref() == Some(&[0xee][..]);
                if !ok {
                    st.violate(
                        format!("C12 many-sequences forms={shape} target={t} outcome={}", d.out.class()),
                        key.clone(),
                        json!({"outer_elements": n, "forms(outer/inner)": shape, "result": format!("{:?}", d.out).chars().take(200).collect::<String>()}),
                    );
                    return;
                }
                st.bump("many-sequences");
                st.nontrivial += 1;
            }
        }
    }
}

fn c12_bytes(u: &U, st: &mut Stats) {
    let cs = spec::c12_byte_containers();
    for n in 0..=3usize {
        for pat in 0..3u8 {
            let content: Vec<u8> = (0..n).map(|i| match pat {
                0 => 0,
                1 => 0xff,
                _ => (i as u8 + 1) * 0x41,
            }).collect();
            let key = format!("c12bytes:{}", hex(&content));
            let v = Val::Bytes(content.clone());
            let mut encodings: Vec<(String, Vec<u8>)> = Vec::new();
            for c in &cs {
                if let Some(l) = array_len(c) {
                    if l != n {
                        continue;
                    }
                }
                let e = u.get(c);
                if let Out::Ok(b) = &(e.enc)(&v, &[Sink::ToByteVec])[0].out {
                    encodings.push((c.to_string(), b.clone()));
                }
                st.transitions += 1;
                if *c == "Vec<u8>" {
                    if let Some(f) = e.enc_slice {
                        if let Out::Ok(b) = f(&v).out {
                            encodings.push(("&[u8]".into(), b));
                        }
                    }
                }
            }
            for (src, bytes) in &encodings {
                for c in &cs {
                    let e = u.get(c);
                    st.states += 1;
                    let mut input = bytes.clone();
                    input.push(0xee);
                    let d = (e.dec_ctx)(&input);
                    st.transitions += 1;
                    st.validated += 1;
                    let ok = match array_len(c) {
                        Some(l) if l != n => matches!(d.out, Out::Err(_)),
                        _ => matches!(&d.out, Out::Ok(g) if *g == v) && d.rest.as_deref() == Some(&[0xee][..]),
                    };
                    if !ok {
                        st.violate(
                            format!("C12 bytes source={src} target={c} outcome={}", d.out.class()),
                            key.clone(),
                            json!({"content": hex(&content), "bytes": hex(bytes), "result": format!("{:?}", d.out).chars().take(200).collect::<String>()}),
                        );
                        return;
                    }
                    st.bump("byte-family");
                    if src != c {
                        st.nontrivial += 1;
                    }
                }
            }
        }
    }
}

pub fn run_c12(tier: &str, only: Option<String>) -> i32 {
    let mut run = Run::new("C12", tier, "model_checking", only);
    let u = common::load();
    let mut items = Vec::new();
    let mut elements = spec::c12_elements();
    elements.push(("u8", Ty::U8));
    for (rust, ty) in elements {
        let elems: Vec<Val> = if ty == Ty::Unit {
            vec![Val::Unit]
        } else {
            values(&ty, &refmodel::values::Params { leaf_k: 3, seq_len: 1, elem_k: 3, cap: 9, rec_depth: 1 }).into_iter().take(3).collect()
        };
        for (idx, xs) in lists(&elems, 3).into_iter().enumerate() {
            let k = format!("c12:{rust}#{idx}");
            if run.selected(&k) {
                items.push(C12Item { elem_rust: rust.to_string(), elem_ty: ty.clone(), xs, idx });
            }
        }
    }
    let stats = par_items(&items, Some(bridge::rt::hang_limit()), &|_| {}, &|it: &C12Item, st: &mut Stats| c12_case(&u, it, st));
    run.stats = stats;
    {
        // replay keys of these three families select the whole family
        let want = |p: &str| run.only.as_ref().map(|k| k.starts_with(p)).unwrap_or(true);
        let mut st = Stats::default();
        if want("c12map:") {
            c12_maps(&u, &mut st);
        }
        if want("c12bytes:") {
            c12_bytes(&u, &mut st);
        }
        if want("c12many:") {
            c12_many(&u, &mut st, run.thorough());
        }
        run.stats.merge(st);
    }
    run.rule = "element types {u16, String, Option<u8>, (u8,u8), ()} x all lists of length <= 3 over 3-value domains x every source (Vec, slice, [T;len], LinkedList, HashSet, BTreeSet, reference-built unknown-size and known-size forms) x every target container, each decode followed by a sentinel byte; maps: Vec<(K,V)> / HashMap / BTreeMap pairwise incl. unknown-size form; byte containers Vec<u8> / [u8] / [u8;N] / Bytes pairwise; u8 elements among LinkedList / HashSet / BTreeSet; streams of 2..300 (thorough 5 000) sibling sequences in every combination of size forms by level, read as four nested containers; non-trivial = source and target container differ".into();
    run.bounds = json!({"list_length": "<= 3", "element_domain": 3});
    run.finish()
}

// ------------------------------------------------------------------------------------------ C16

fn contents(thorough: bool) -> Vec<Vec<u8>> {
    let mut out: Vec<Vec<u8>> = Vec::new();
    // all strings of length <= 6 over {00, 01, ff}
    let alpha = [0x00u8, 0x01, 0xff];
    for len in 0..=6 {
        refmodel::tamper::strings_with_prefix(&alpha, &[], len, &mut |s| out.push(s.to_vec()));
    }
    let max_k = if thorough { 20 } else { 16 };
    for k in 0..=max_k {
        let n = 1usize << k;
        out.push(vec![0x41; n]);
        // fixed incompressible sequence (LCG bytes)
        let mut x: u32 = 0x1234_5678;
        out.push((0..n).map(|_| { x = x.wrapping_mul(1664525).wrapping_add(1013904223); (x >> 24) as u8 }).collect());
    }
    for reps in [1usize, 10, 1000] {
        out.push("the quick brown fox jumps over the lazy dog. ".repeat(reps).into_bytes());
    }
    // highly repetitive blocks just above 64 KiB and well above (compression ratios near the
    // format's maximum)
    for n in [65_537usize, 100_000, 200_000] {
        out.push(vec![0x00; n]);
        out.push((0..n).map(|i| b"ab"[i % 2]).collect());
    }
    for n in [127usize, 128, 129, 16383, 16384, 16385] {
        out.push((0..n).map(|i| (i % 7) as u8).collect());
    }
    out
}

fn parse_frame(b: &[u8]) -> Option<(usize, usize, usize)> {
    let mut c = Cur { pos: 0, end: b.len() };
    let ulen = refmodel::wire::rd_varu(b, &mut c).ok()? as usize;
    let zlen = refmodel::wire::rd_varu(b, &mut c).ok()? as usize;
    Some((ulen, zlen, c.pos))
}

fn read_back(src: usize, frame_and_sentinel: &[u8]) -> (Out<Vec<u8>>, usize, Option<u8>) {
    match src {
        0 => {
            let mut s = SliceInput::new(frame_and_sentinel);
            let (o, m) = guarded(|| s.read_compressed());
            let next = s.read_u8().ok();
            (o, m, next)
        }
        1 => {
            let mut s = OwnedInput::new(frame_and_sentinel.to_vec());
            let (o, m) = guarded(|| s.read_compressed());
            let next = s.read_u8().ok();
            (o, m, next)
        }
        _ => {
            let mut s = DeserializationContext::new(frame_and_sentinel);
            let (o, m) = guarded(|| s.read_compressed());
            let next = s.read_u8().ok();
            (o, m, next)
        }
    }
}

struct C16Item {
    idx: usize,
    d: Vec<u8>,
}

fn c16_case(it: &C16Item, st: &mut Stats, thorough: bool, frames_out: &std::sync::Mutex<Vec<(Vec<u8>, Vec<u8>)>>) {
    let d = &it.d;
    let key = format!("c16:{}", it.idx);
    let mut bad = |st: &mut Stats, what: &str, detail: serde_json::Value| {
        st.violate(format!("C16 {what} content_len={}", d.len()), key.clone(), json!({"content_head": hex(&d[..d.len().min(32)]), "content_len": d.len(), "detail": detail}));
    };
    let levels: Vec<u32> = if d.len() <= 4096 || thorough { (0..=9).collect() } else { vec![0, 1, 6, 9] };
    for level in levels {
        let opts = flate2::Compression::new(level);
        // three sinks
        let mut frames: Vec<Vec<u8>> = Vec::new();
        {
            let mut v: Vec<u8> = Vec::new();
            let (o, _) = guarded(|| v.write_compressed(d, opts));
            if !o.is_ok() {
                bad(st, "write-fails", json!({"sink": "Vec", "level": level, "result": format!("{o:?}")}));
                return;
            }
            frames.push(v);
            let mut b = BytesMut::new();
            let (o, _) = guarded(|| b.write_compressed(d, opts));
            if !o.is_ok() {
                bad(st, "write-fails", json!({"sink": "BytesMut", "level": level}));
                return;
            }
            frames.push(b.to_vec());
            let mut c = SerializationContext::new(Vec::new());
            let (o, _) = guarded(|| c.write_compressed(d, opts));
            if !o.is_ok() {
                bad(st, "write-fails", json!({"sink": "SerializationContext", "level": level}));
                return;
            }
            frames.push(c.into_output());
            st.transitions += 3;
        }
        if frames[1] != frames[0] || frames[2] != frames[0] {
            bad(st, "sinks-differ", json!({"level": level}));
            return;
        }
        let frame = &frames[0];
        // framing: varu(len d) ++ varu(len z) ++ z, both lengths true
        st.validated += 1;
        let Some((ulen, zlen, hdr)) = parse_frame(frame) else {
            bad(st, "frame-header-unparsable", json!({"frame": hex(frame)}));
            return;
        };
        if ulen != d.len() || hdr + zlen != frame.len() {
            bad(st, "frame-lengths-untrue", json!({"uncompressed_field": ulen, "compressed_field": zlen, "header_bytes": hdr, "frame_len": frame.len(), "level": level}));
            return;
        }
        if level == 6 || d.len() <= 6 {
            frames_out.lock().unwrap().push((d.clone(), frame[hdr..].to_vec()));
        }
        // round trip through the three sources, sentinel intact
        let mut with_sentinel = frame.clone();
        with_sentinel.push(0xee);
        for src in 0..3 {
            let (o, _, next) = read_back(src, &with_sentinel);
            st.transitions += 1;
            st.validated += 1;
            if !matches!(&o, Out::Ok(back) if back == d) || next != Some(0xee) {
                bad(st, "roundtrip", json!({"source": src, "level": level, "next_byte": next, "result": o.class()}));
                return;
            }
        }
        st.states += 1;
        st.bump("roundtrip+framing");
        st.nontrivial += 1;
        // faults (on the default level and the extremes; small frames only in the quick tier)
        if !(level == 0 || level == 6 || level == 9) {
            continue;
        }
        let fault_ok = if thorough { frame.len() <= 8192 && d.len() <= (1 << 18) } else { frame.len() <= 300 && d.len() <= (1 << 14) };
        if !fault_ok {
            st.add("frames_without_fault_enumeration(size cap)", 1);
            continue;
        }
        st.add("frames_with_fault_enumeration", 1);
        let src = (it.idx + level as usize) % 3;
        for k in 0..frame.len() {
            let (o, _, _) = read_back(src, &frame[..k]);
            st.transitions += 1;
            st.states += 1;
            // a frame whose compressed part is complete at k would be a different frame: cannot
            // happen for a strict prefix because the length field says zlen
            if !matches!(o, Out::Err(_)) {
                bad(st, "truncation-not-detected", json!({"cut": k, "frame_len": frame.len(), "level": level, "result": o.class()}));
                return;
            }
            st.bump("truncation:Err");
        }
        let mut damaged: Vec<(String, Vec<u8>)> = Vec::new();
        for i in 0..frame.len() {
            for bit in 0..8 {
                let mut f = frame.clone();
                f[i] ^= 1 << bit;
                damaged.push((format!("flip {i}.{bit}"), f));
            }
        }
        for (which, x) in [(0usize, ulen), (1usize, zlen)] {
            for nv in [0usize, 1, x.wrapping_sub(1), x + 1, 1 << 16, 1 << 31, u32::MAX as usize] {
                if nv == x || nv > u32::MAX as usize {
                    continue;
                }
                let mut f = Vec::new();
                f.extend(refmodel::wire::varu(if which == 0 { nv as u32 } else { ulen as u32 }));
                f.extend(refmodel::wire::varu(if which == 1 { nv as u32 } else { zlen as u32 }));
                f.extend_from_slice(&frame[hdr..]);
                damaged.push((format!("header field {which} := {nv}"), f));
            }
        }
        for (what, f) in damaged {
            let (o, max_alloc, _) = read_back(src, &f);
            st.transitions += 1;
            st.states += 1;
            let produced = match &o {
                Out::Ok(v) => v.len(),
                _ => 0,
            };
            match &o {
                Out::Panic(p) => {
                    bad(st, "panic-on-damaged-frame", json!({"damage": what, "frame": hex(&f), "panic": p}));
                    return;
                }
                _ => {
                    // an Err may have produced bytes before failing; bound by the content length
                    let bound = std::cmp::max(64 * 1024, 2 * std::cmp::max(produced, d.len().max(f.len()) * 2));
                    if max_alloc > bound {
                        bad(st, "allocation-out-of-proportion", json!({"damage": what, "frame": hex(&f), "largest_request": max_alloc, "produced": produced}));
                        return;
                    }
                    st.bump(&format!("damaged:{}", o.class()));
                }
            }
        }
    }
    // the block written by a user codec (`id ++ block ++ tail`) that is a field of a record: the
    // frame must sit where the field's bytes go (plain record, chunk 0 and chunk 1 of an evolved
    // record) and the data around it must be unaffected
    if d.len() <= 4096 {
        use bridge::tables::{decode_at, encode_at, frame_at, Zipped, GRAPH_PLACES};
        let mut frame: Vec<u8> = Vec::new();
        if !guarded(|| frame.write_compressed(d, Default::default())).0.is_ok() {
            bad(st, "write-fails", json!({"sink": "Vec", "level": "default"}));
            return;
        }
        let z = Zipped { id: 9, payload: d.clone(), tail: 0xbeef };
        let inner = [&[9u8][..], &frame, &[0xbe, 0xef]].concat();
        for place in GRAPH_PLACES {
            let want = frame_at(&inner, place);
            st.states += 1;
            st.transitions += 2;
            st.validated += 2;
            match encode_at(&z, place) {
                Out::Ok(b) if b == want => {}
                o => {
                    bad(st, &format!("block-inside-a-record-misplaced placement={place:?}"), json!({"library": format!("{o:?}").chars().take(300).collect::<String>(), "prescribed": hex(&want[..want.len().min(64)])}));
                    return;
                }
            }
            match decode_at::<Zipped>(&want, place) {
                Out::Ok(back) if back == z => st.bump("block-inside-a-record"),
                o => {
                    bad(st, &format!("block-inside-a-record-read-back placement={place:?}"), json!({"result": format!("{o:?}").chars().take(200).collect::<String>()}));
                    return;
                }
            }
            // a torn write of the whole record: every strict prefix is an error
            if want.len() <= 200 {
                for k in 0..want.len() {
                    st.transitions += 1;
                    st.validated += 1;
                    match decode_at::<Zipped>(&want[..k], place) {
                        Out::Err(_) => {}
                        o => {
                            bad(st, &format!("block-inside-a-record truncated-stream-not-rejected placement={place:?}"), json!({"cut_at": k, "of": want.len(), "result": o.class()}));
                            return;
                        }
                    }
                }
                st.bump("block-inside-a-record:every-prefix-Err");
            }
        }
    }
    if it.idx % 97 == 3 {
        st.sample(json!({"content": hex(&d[..d.len().min(16)]), "content_len": d.len()}));
    }
}

pub fn run_c16(tier: &str, only: Option<String>) -> i32 {
    let mut run = Run::new("C16", tier, "fault_enumeration", only);
    let thorough = run.thorough();
    let items: Vec<C16Item> = contents(thorough)
        .into_iter()
        .enumerate()
        .map(|(idx, d)| C16Item { idx, d })
        .filter(|it| run.selected(&format!("c16:{}", it.idx)))
        .collect();
    let frames = std::sync::Mutex::new(Vec::new());
    let stats = par_items(&items, Some(bridge::rt::hang_limit()), &|it: &C16Item| {
        println!("  hang on content {} (len {})", it.idx, it.d.len());
    }, &|it: &C16Item, st: &mut Stats| c16_case(it, st, thorough, &frames));
    run.stats = stats;
    // independent inflater: Python's zlib on the raw DEFLATE stream of every recorded frame
    let frames = frames.into_inner().unwrap();
    let dump = format!("{}/.c16-frames.bin", bridge::rt::VERIF_ROOT);
    {
        use std::io::Write;
        let mut f = std::io::BufWriter::new(std::fs::File::create(&dump).expect("dump"));
        for (d, z) in &frames {
            f.write_all(&(d.len() as u64).to_le_bytes()).unwrap();
            f.write_all(&(z.len() as u64).to_le_bytes()).unwrap();
            f.write_all(d).unwrap();
            f.write_all(z).unwrap();
        }
    }
    let py = std::process::Command::new("python3")
        .arg(format!("{}/tools/inflate_check.py", bridge::rt::VERIF_ROOT))
        .arg(&dump)
        .output();
    let _ = std::fs::remove_file(&dump);
    match py {
        Ok(o) if o.status.success() => {
            let s = String::from_utf8_lossy(&o.stdout);
            let ok: u64 = s.lines().find_map(|l| l.strip_prefix("OK ")).and_then(|x| x.trim().parse().ok()).unwrap_or(0);
            run.stats.add("frames_inflated_identically_by_python_zlib", ok);
            run.stats.validated += ok;
            if ok != frames.len() as u64 {
                run.stats.violate("C16 python-zlib-disagrees".into(), "c16:python".into(), json!({"stdout": s.chars().take(500).collect::<String>()}));
            }
        }
        Ok(o) => {
            let s = String::from_utf8_lossy(&o.stdout).to_string() + &String::from_utf8_lossy(&o.stderr);
            if s.contains("MISMATCH") {
                run.stats.violate("C16 python-zlib-disagrees".into(), "c16:python".into(), json!({"output": s.chars().take(800).collect::<String>()}));
            } else {
                eprintln!("MACHINERY: inflate_check.py failed: {s}");
                return 2;
            }
        }
        Err(e) => {
            eprintln!("MACHINERY: cannot run python3: {e}");
            return 2;
        }
    }
    run.rule = "contents: all strings of length <= 6 over {00,01,ff}, runs and a fixed incompressible sequence of length 2^k, text repetitions, lengths around the varint edges; levels 0-9; three sinks x three sources; frame parsed independently (both length fields true, raw DEFLATE inflated by Python zlib); sentinel after the frame; faults per frame: every truncation, every single-bit flip, boundary rewrites of both header fields (allocation monitor); every content <= 4 KiB also written by a user codec (id ++ block ++ tail) at top level and as a field of a record through the real Adt API (plain record, chunk 0 and chunk 1 of an evolved record): bytes == record framing around the same frame, read back identical with intact siblings".into();
    run.bounds = json!({"max_content": if thorough { "1 MiB" } else { "64 KiB" }, "fault_enumeration_frame_cap": if thorough { 8192 } else { 300 }});
    run.assumptions = vec!["DEFLATE itself (flate2 / miniz_oxide) is cross-checked against zlib on the corpus, not proved".into()];
    run.finish()
}

// ------------------------------------------------------------------------------------------ C17

pub fn run_c17(tier: &str, only: Option<String>) -> i32 {
    let mut run = Run::new("C17", tier, "model_checking", only);
    let u = common::load();
    let thorough = run.thorough();
    let mut st = Stats::default();
    // (1) every Unicode scalar value
    let ce = u.get("char");
    let shards: Vec<u32> = (0..=0x10).collect();
    let cs = par_items(&shards, Some(bridge::rt::hang_limit()), &|_| {}, &|plane: &u32, st: &mut Stats| {
        for c in (plane << 16)..((plane + 1) << 16) {
            if char::from_u32(c).is_none() {
                continue;
            }
            st.states += 1;
            let r = &(ce.enc)(&Val::Char(c), &[Sink::ToByteVec, Sink::ToBytes])[..];
            st.transitions += 2;
            st.validated += 1;
            for r in r {
                let ok = if c <= 0xffff {
                    matches!(&r.out, Out::Ok(b) if b[..] == (c as u16).to_be_bytes())
                } else {
                    matches!(&r.out, Out::Err(ErrKind::UnsupportedCharacter(x)) if *x == c)
                };
                if !ok {
                    st.violate(format!("C17 char plane={plane} outcome={}", r.out.class()), format!("char:{c}"), json!({"char": format!("U+{c:04X}"), "result": format!("{:?}", r.out)}));
                    return;
                }
            }
            st.bump(if c <= 0xffff { "char:Ok" } else { "char:UnsupportedCharacter" });
            st.nontrivial += 1;
            if c == 0x20ac || c == 0x1f600 {
                st.sample(json!({"char": format!("U+{c:04X}"), "result": format!("{:?}", r[0].out)}));
            }
        }
    });
    st.merge(cs);
    // (2) lengths that do not fit the 31-bit counts: zero-width elements make them free
    {
        let mut lens: Vec<(usize, bool)> = vec![(0, true), (1, true), (1 << 20, true), (1usize << 31, false), ((1usize << 31) + 1, false), (1usize << 32, false), (usize::MAX, false)];
        if thorough {
            lens.push(((1usize << 31) - 1, true));
        }
        for (n, fits) in lens {
            st.states += 3;
            let v: Vec<()> = vec![(); n];
            let outs: Vec<(&str, Out<usize>)> = vec![
                ("Vec<()>", guarded(|| desert::serialize_to_byte_vec(&v)).0.map(|b| b.len())),
                ("&[()]", guarded(|| desert::serialize_to_byte_vec(&&v[..])).0.map(|b| b.len())),
                ("serialize_iterator(exact size)", guarded(|| {
                    let mut c = SerializationContext::new(Vec::new());
                    desert::serialize_iterator(&mut std::iter::repeat(()).take(n), &mut c)?;
                    Ok(c.into_output())
                }).0.map(|b| b.len())),
            ];
            st.transitions += 3;
            for (what, o) in outs {
                st.validated += 1;
                let ok = if fits { matches!(o, Out::Ok(l) if l == refmodel::wire::vari(n as i32).len()) } else { matches!(o, Out::Err(ErrKind::LengthTooLarge)) };
                if !ok {
                    st.violate(format!("C17 length {what} n={n} outcome={}", o.class()), format!("len:{what}:{n}"), json!({"length": n, "result": format!("{o:?}")}));
                } else {
                    st.bump(if fits { "length:Ok" } else { "length:LengthTooLarge" });
                    st.nontrivial += 1;
                    if n == 1usize << 31 {
                        st.sample(json!({"container": what, "length": n, "result": "Err(LengthTooLarge)"}));
                    }
                }
            }
        }
        // unknown-size iterators never overflow a count
        let (o, _) = guarded(|| {
            let mut c = SerializationContext::new(Vec::new());
            desert::serialize_iterator(&mut (0..3u8).filter(|_| true), &mut c)?;
            Ok(c.into_output())
        });
        st.states += 1;
        st.transitions += 1;
        if o != Out::Ok(vec![1, 1, 0, 1, 1, 1, 2, 0]) {
            st.violate("C17 unknown-size-iterator".into(), "iter:unknown".into(), json!({"result": format!("{o:?}")}));
        }
        {
            // a string of exactly 2^31 bytes (one more than the format's 31-bit length can express)
            let s: String = String::from_utf8(vec![0x20u8; 1usize << 31]).unwrap();
            let (o, _) = guarded(|| desert::serialize(&s, desert::SizeCalculator::new()));
            st.states += 1;
            st.transitions += 1;
            if !matches!(o, Out::Err(ErrKind::LengthTooLarge)) {
                st.violate(format!("C17 length String 2^31 bytes outcome={}", o.class()), "len:str31".into(), json!({"result": o.class()}));
            } else {
                st.bump("length:LengthTooLarge");
            }
            let (o, _) = guarded(|| desert::serialize(&desert::DeduplicatedString(s), desert::SizeCalculator::new()));
            st.states += 1;
            st.transitions += 1;
            if !matches!(o, Out::Err(ErrKind::LengthTooLarge)) {
                st.violate(format!("C17 length DeduplicatedString 2^31 bytes outcome={}", o.class()), "len:dstr31".into(), json!({"result": o.class()}));
            } else {
                st.bump("length:LengthTooLarge");
            }
        }
        if thorough {
            // lazily zeroed huge byte containers: the length must be refused before anything is written
            let big: Vec<u8> = vec![0u8; (1usize << 32) + 1];
            let (o, _) = guarded(|| desert::serialize(&big, desert::SizeCalculator::new()));
            st.states += 1;
            st.transitions += 1;
            if !matches!(o, Out::Err(ErrKind::LengthTooLarge)) {
                st.violate("C17 length Vec<u8> 4GiB+1".into(), "len:bytes".into(), json!({"result": o.class()}));
            } else {
                st.bump("length:LengthTooLarge");
            }
            drop(big);
            let s: String = String::from_utf8(vec![0x20u8; (1usize << 31) + 1]).unwrap();
            let (o, _) = guarded(|| desert::serialize(&s, desert::SizeCalculator::new()));
            st.states += 1;
            st.transitions += 1;
            if !matches!(o, Out::Err(ErrKind::LengthTooLarge)) {
                st.violate("C17 length String 2GiB+1".into(), "len:str".into(), json!({"result": o.class()}));
            } else {
                st.bump("length:LengthTooLarge");
            }
        }
    }
    // (3) evolution metadata that references unknown fields, through the real Adt machinery
    for (steps, expect_err) in [
        (vec![Step::MadeOptional("nope".into())], true),
        (vec![Step::Added("n0".into()), Step::MadeOptional("nope".into())], true),
        (vec![Step::Removed("nope".into())], false),
        (vec![Step::MadeTransient("nope".into())], false),
        (vec![Step::MadeOptional("nope".into()), Step::Removed("nope".into())], false),
    ] {
        let rd = RecordDescr {
            name: "Meta".into(),
            steps: steps.clone(),
            fields: vec![FieldDescr { name: "a".into(), ty: Ty::U8, transient: None, is_option: false, default: None }],
        };
        let ty = Ty::Record(Arc::new(rd));
        let o = dyn_encode(&ty, &Val::Rec(vec![Val::U(1)]));
        let m = ref_encode(&ty, &Val::Rec(vec![Val::U(1)]));
        st.states += 1;
        st.transitions += 1;
        st.validated += 1;
        let ok = match (&o, &m) {
            (Out::Err(ErrKind::UnknownFieldReferenceInEvolutionStep(f)), Err(EncErr::UnknownFieldReference(g))) => expect_err && f == g,
            // (which bytes is C04's business: here only that encoding succeeds)
            (Out::Ok(_), Ok(_)) => !expect_err,
            _ => false,
        };
        if !ok {
            st.violate(format!("C17 metadata steps={steps:?} outcome={}", o.class()), format!("meta:{steps:?}"), json!({"library": format!("{o:?}"), "model": format!("{:?}", m.map(|b| hex(&b.b)))}));
        } else {
            st.bump(if expect_err { "metadata:UnknownFieldReference" } else { "metadata:Ok" });
            st.nontrivial += 1;
        }
    }
    // (3b) every evolution attribute list a user could write, up to a length, over the four step
    // kinds and three names (a plain declared field, a declared optional field, a name that is not
    // a field): legal or not, encoding is Ok or Err and never unwinds. Bytes are compared with the
    // model only where the model defines them (legal histories are C03's job).
    {
        let kinds: [fn(String) -> Step; 4] = [Step::Added, Step::MadeOptional, Step::Removed, Step::MadeTransient];
        let names = ["a", "n0", "nope"];
        let mut alphabet: Vec<Step> = Vec::new();
        for k in kinds {
            for n in names {
                alphabet.push(k(n.to_string()));
            }
        }
        let depth = if thorough { 4 } else { 3 };
        let mut lists: Vec<Vec<Step>> = vec![vec![]];
        let mut frontier: Vec<Vec<Step>> = vec![vec![]];
        for _ in 0..depth {
            let mut next = Vec::new();
            for p in &frontier {
                for a in &alphabet {
                    let mut q = p.clone();
                    q.push(a.clone());
                    next.push(q);
                }
            }
            lists.extend(next.iter().cloned());
            frontier = next;
        }
        let lists: Vec<Vec<Step>> = lists.into_iter().filter(|l| run.selected(&format!("metaenum:{l:?}"))).collect();
        let ms = par_items(&lists, Some(bridge::rt::hang_limit()), &|_| {}, &|steps: &Vec<Step>, st: &mut Stats| {
            let rd = RecordDescr {
                name: "MetaE".into(),
                steps: steps.clone(),
                fields: vec![
                    FieldDescr { name: "a".into(), ty: Ty::U8, transient: None, is_option: false, default: None },
                    FieldDescr { name: "n0".into(), ty: Ty::Opt(Box::new(Ty::U8)), transient: None, is_option: true, default: Some(Val::Opt(None)) },
                ],
            };
            let ty = Ty::Record(Arc::new(rd));
            for v in [Val::Rec(vec![Val::U(1), Val::Opt(Some(Box::new(Val::U(2))))]), Val::Rec(vec![Val::U(0), Val::Opt(None)])] {
                st.states += 1;
                st.transitions += 1;
                st.validated += 1;
                let o = dyn_encode(&ty, &v);
                if o.is_panic() {
                    st.violate(format!("C17 metadata enumeration outcome=Panic steps={}", steps.len()), format!("metaenum:{steps:?}"), json!({"steps": format!("{steps:?}"), "value": val_json(&v), "library": format!("{o:?}").chars().take(300).collect::<String>()}));
                    return;
                }
                st.bump(&format!("metadata-enumeration:{}", o.class()));
                st.nontrivial += 1;
            }
        });
        st.merge(ms);
    }
    // (3c) wide records through the real Adt machinery: 254..258 and 300 fields in chunk 0 (the
    // position of a field inside its chunk is one byte), with no step, with the last field added by
    // a step, and with the last / first field made optional by a step: Ok or Err, never an unwind
    {
        let widths: Vec<usize> = vec![1, 127, 128, 129, 254, 255, 256, 257, 258, 300];
        let shapes: [&str; 4] = ["no step", "last field added", "last field made optional", "first field made optional"];
        let mut cases: Vec<(usize, usize)> = Vec::new();
        for w in &widths {
            for s in 0..shapes.len() {
                cases.push((*w, s));
            }
        }
        let cases: Vec<(usize, usize)> = cases.into_iter().filter(|(w, s)| run.selected(&format!("wide:{w}:{}", shapes[*s]))).collect();
        let ws = par_items(&cases, Some(bridge::rt::hang_limit()), &|_| {}, &|c: &(usize, usize), st: &mut Stats| {
            let (w, shape) = *c;
            let mut fields: Vec<FieldDescr> = (0..w).map(|i| FieldDescr { name: format!("f{i}"), ty: Ty::U8, transient: None, is_option: false, default: None }).collect();
            let mut vals: Vec<Val> = (0..w).map(|i| Val::U((i % 251) as u128)).collect();
            let steps = match shape {
                0 => vec![],
                1 => {
                    fields[w - 1].default = Some(Val::U(9));
                    vec![Step::Added(format!("f{}", w - 1))]
                }
                k => {
                    let i = if k == 2 { w - 1 } else { 0 };
                    fields[i].ty = Ty::Opt(Box::new(Ty::U8));
                    fields[i].is_option = true;
                    vals[i] = Val::Opt(Some(Box::new(vals[i].clone())));
                    vec![Step::MadeOptional(format!("f{i}"))]
                }
            };
            let ty = Ty::Record(Arc::new(RecordDescr { name: "Wide".into(), steps, fields }));
            st.states += 1;
            st.transitions += 1;
            st.validated += 1;
            let o = dyn_encode(&ty, &Val::Rec(vals));
            if o.is_panic() {
                st.violate(
                    format!("C17 wide record outcome=Panic shape={}", shapes[shape]),
                    format!("wide:{w}:{}", shapes[shape]),
                    json!({"fields_in_chunk_0": w, "evolution": shapes[shape], "library": format!("{o:?}").chars().take(300).collect::<String>()}),
                );
                return;
            }
            st.bump(&format!("wide-record:{}", o.class()));
            st.nontrivial += 1;
        });
        st.merge(ws);
    }
    // (4) every value of every type of the universe encodes to Ok or to the documented error
    let its = crate::p_values::items(&u, &run, &|_e: &Entry| true);
    let vs = par_items(&its, Some(bridge::rt::hang_limit()), &|_| {}, &|it: &crate::p_values::Item, st: &mut Stats| {
        for (i, v) in &it.vals {
            st.states += 1;
            let rs = (it.e.enc)(v, &[Sink::ToByteVec, Sink::ToBytes]);
            st.transitions += 2;
            let model = ref_encode(&it.e.ty, &rs[0].actual);
            st.validated += 1;
            for r in &rs {
                let ok = match (&r.out, &model) {
                    (Out::Ok(_), Ok(_)) => true,
                    (Out::Err(ErrKind::SerializingTransientConstructor { .. }), Err(EncErr::TransientConstructor { .. })) => true,
                    (Out::Err(ErrKind::UnknownFieldReferenceInEvolutionStep(_)), Err(EncErr::UnknownFieldReference(_))) => true,
                    // outside what the format can express and without a documented error: any
                    // Err is acceptable, a panic is not
                    (Out::Err(_), Err(EncErr::Unrepresentable(_))) | (Out::Ok(_), Err(EncErr::Unrepresentable(_))) => true,
                    _ => false,
                };
                if !ok {
                    st.violate(
                        format!("C17 encode type={} outcome={}", it.e.name, r.out.class()),
                        crate::p_values::key(it.e, *i),
                        json!({"type": it.e.name, "value": val_json(v), "result": format!("{:?}", r.out).chars().take(300).collect::<String>(), "model": format!("{:?}", model.as_ref().map(|_| "Ok"))}),
                    );
                    return;
                }
            }
            st.bump(&format!("encode:{}", rs[0].out.class()));
        }
    });
    st.merge(vs);
    let _ = guarded_plain(|| ());
    run.stats = st;
    run.rule = "every Unicode scalar value (1 112 064) through both entry points; zero-width containers and exact-size iterators of length 0, 1, 2^20, 2^31, 2^31+1, 2^32, usize::MAX (thorough: 2^31-1, a 4 GiB+1 Vec<u8>, a 2 GiB String); evolution metadata naming unknown fields through the real Adt machinery; all evolution step lists of length <= 3 (thorough 4) over {FieldAdded, FieldMadeOptional, FieldRemoved, FieldMadeTransient} x {a plain field, an optional field, an undeclared name}, legal or not: never an unwind; records of 1..300 one-byte fields in chunk 0 (around the 127/128 and 255/256 position limits) with no step, an added last field, the last / first field made optional: never an unwind; every value of every type of the universe (thorough: including the 127/128/129-field and 254-step boundary declarations): Ok or the documented Err variant, never an unwind".into();
    run.bounds = json!({"chars": "all scalar values", "universe_thorough": universe::THOROUGH});
    run.finish()
}
