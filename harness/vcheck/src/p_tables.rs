//! Per-stream tables: C09 (string deduplication) and C10 (reference tracking).
use bridge::dynrec::{dyn_decode, dyn_encode};
use bridge::rt::{hex, par_items, val_json, Run, Stats};
use bridge::tables::{flat_decode, flat_encode, graph_decode, graph_decode_at, graph_encode, graph_encode_at, typed_lookup, wgraph_encode, Graph, GraphPlace, Node, WGraph, WNode, GRAPH_PLACES};
use bridge::Out;
use refmodel::wire::{vari, varu};
use refmodel::*;
use serde_json::json;
use std::rc::Rc;
use std::sync::Arc;

// ------------------------------------------------------------------------------------------ C09

fn alphabet() -> Vec<String> {
    vec!["".into(), "a".into(), "zz".into(), "é".repeat(200)]
}

#[derive(Clone, Copy, Debug, PartialEq, Eq)]
enum Placement {
    Flat,
    Tuple,
    Seq,
    RecordV0,
    Evolved,
    EvolvedRemovedNames,
    EvolvedInEvolved,
    EvolvedOptionalThenRemoved,
}

const PLACEMENTS: [Placement; 8] = [
    Placement::Flat,
    Placement::Tuple,
    Placement::Seq,
    Placement::RecordV0,
    Placement::Evolved,
    Placement::EvolvedRemovedNames,
    Placement::EvolvedInEvolved,
    Placement::EvolvedOptionalThenRemoved,
];

fn fld(name: &str, ty: Ty) -> FieldDescr {
    FieldDescr { name: name.into(), is_option: false, ty, transient: None, default: None }
}

fn op_ty(d: bool) -> Ty {
    if d {
        Ty::DedupStr
    } else {
        Ty::Str
    }
}

/// fields f0..fn in declaration order `order` (indices into the script)
fn record_of(name: &str, script: &[(bool, usize)], order: &[usize], steps: Vec<Step>, added: &[usize]) -> RecordDescr {
    let fields = order
        .iter()
        .map(|&i| {
            let mut f = fld(&format!("f{i}"), op_ty(script[i].0));
            if added.contains(&i) {
                f.default = Some(Val::s("dflt"));
            }
            f
        })
        .collect();
    RecordDescr { name: name.into(), steps, fields }
}

/// the type and value a script becomes in a placement, plus the order in which the stream
/// processes the script's writes (None = placement not applicable to this script)
fn place(p: Placement, script: &[(bool, usize)], strings: &[String]) -> Option<(Ty, Val, Vec<usize>, Vec<String>)> {
    let n = script.len();
    let sval = |i: usize| Val::Str(strings[script[i].1].clone());
    let natural: Vec<usize> = (0..n).collect();
    match p {
        Placement::Flat => None, // handled by the flat harness codec
        Placement::Tuple => {
            if n == 0 || n > 8 {
                return None;
            }
            Some((Ty::Tuple(script.iter().map(|o| op_ty(o.0)).collect()), Val::Tuple((0..n).map(sval).collect()), natural, vec![]))
        }
        Placement::Seq => {
            if !script.iter().all(|o| o.0) {
                return None;
            }
            Some((Ty::Seq(SeqKind::Vec, Box::new(Ty::DedupStr)), Val::Seq((0..n).map(sval).collect()), natural, vec![]))
        }
        Placement::RecordV0 => {
            let rd = record_of("R0", script, &natural, vec![], &[]);
            Some((Ty::Record(Arc::new(rd)), Val::Rec((0..n).map(sval).collect()), natural, vec![]))
        }
        Placement::Evolved => {
            if n == 0 {
                return None;
            }
            // the last write is a field added by a step and declared *first*: it lives in chunk 1
            // (late in the bytes) but is processed first
            let mut order = vec![n - 1];
            order.extend(0..n - 1);
            let rd = record_of("RE", script, &order, vec![Step::Added(format!("f{}", n - 1))], &[n - 1]);
            let vals = order.iter().map(|&i| sval(i)).collect();
            Some((Ty::Record(Arc::new(rd)), Val::Rec(vals), order, vec![]))
        }
        Placement::EvolvedRemovedNames => {
            // header carries a removed and a transient name, one of them equal to a script string
            let steps = vec![Step::Removed("zz".into()), Step::MadeTransient("a".into()), Step::Removed("other".into())];
            let rd = record_of("RR", script, &natural, steps, &[]);
            Some((Ty::Record(Arc::new(rd)), Val::Rec((0..n).map(sval).collect()), natural, vec!["zz".into(), "a".into(), "other".into()]))
        }
        Placement::EvolvedOptionalThenRemoved => {
            // two names that each occur in two header steps (made optional, later removed / made
            // transient); both are also script strings. The names are numbered in step order.
            let steps = vec![Step::MadeOptional("a".into()), Step::Removed("a".into()), Step::MadeOptional("zz".into()), Step::MadeTransient("zz".into())];
            let rd = record_of("RQ", script, &natural, steps, &[]);
            Some((Ty::Record(Arc::new(rd)), Val::Rec((0..n).map(sval).collect()), natural, vec!["a".into(), "a".into(), "zz".into(), "zz".into()]))
        }
        Placement::EvolvedInEvolved => {
            if n < 2 {
                return None;
            }
            // outer { x: inner { first half }, second half... }, both with removed names
            let h = n / 2;
            let inner_order: Vec<usize> = (0..h).collect();
            let inner = record_of("RI", script, &inner_order, vec![Step::Removed("zz".into())], &[]);
            let mut ofields = vec![fld("x", Ty::Record(Arc::new(inner)))];
            for i in h..n {
                ofields.push(fld(&format!("f{i}"), op_ty(script[i].0)));
            }
            let outer = RecordDescr { name: "RO".into(), steps: vec![Step::Removed("zz".into()), Step::Removed("a".into())], fields: ofields };
            let mut vals = vec![Val::Rec((0..h).map(sval).collect())];
            vals.extend((h..n).map(sval));
            // processing order: outer header names, then inner header names, then inner fields, ...
            Some((Ty::Record(Arc::new(outer)), Val::Rec(vals), natural, vec!["zz".into(), "a".into(), "zz".into()]))
        }
    }
}

struct C09Item {
    first: usize,
    len: usize,
}

/// expected encoding of a stream, computed here from the statement of the property (4.6):
/// `pre` = strings the stream meets as deduplicated strings before the script (header names)
fn expected_string_part(pre: &[String], ops_in_processing_order: &[(bool, String)]) -> Vec<Vec<u8>> {
    let mut table: Vec<String> = Vec::new();
    let mut one = |d: bool, s: &str, table: &mut Vec<String>| -> Vec<u8> {
        let plain = |s: &str| {
            let mut b = vari(s.len() as i32);
            b.extend_from_slice(s.as_bytes());
            b
        };
        if !d {
            return plain(s);
        }
        match table.iter().position(|x| x == s) {
            Some(i) => vari(-((i + 1) as i32)),
            None => {
                table.push(s.to_string());
                plain(s)
            }
        }
    };
    for h in pre {
        one(true, h, &mut table);
    }
    ops_in_processing_order.iter().map(|(d, s)| one(*d, s, &mut table)).collect()
}

fn c09_script(script: &[(bool, usize)], st: &mut Stats, strings: &[String], only: &Option<String>, deep_only: bool) {
    let label: String = script.iter().map(|(d, i)| format!("{}{}", if *d { 'D' } else { 'P' }, i)).collect::<Vec<_>>().join("");
    let ops: Vec<(bool, String)> = script.iter().map(|(d, i)| (*d, strings[*i].clone())).collect();
    for p in PLACEMENTS {
        if deep_only && !matches!(p, Placement::Flat | Placement::EvolvedRemovedNames) {
            continue;
        }
        let key = format!("c09:{label}/{p:?}");
        if let Some(k) = only {
            if *k != key {
                continue;
            }
        }
        let mut bad = |st: &mut Stats, what: &str, detail: serde_json::Value| {
            st.violate(format!("C09 {what} placement={p:?}"), key.clone(), json!({"script": label, "strings": ["", "a", "zz", "é x200"], "detail": detail}));
        };
        let mut model_cmp: Option<(Ty, Val)> = None;
        // run the library
        let (bytes, decoded, proc_order, pre): (Vec<u8>, Out<Vec<String>>, Vec<usize>, Vec<String>) = if p == Placement::Flat {
            let enc = flat_encode(&ops);
            st.transitions += 1;
            let Out::Ok(b) = enc else {
                bad(st, "encode", json!({"result": format!("{enc:?}")}));
                continue;
            };
            let shape: Vec<bool> = script.iter().map(|o| o.0).collect();
            let d = flat_decode(&shape, &b);
            st.transitions += 1;
            (b, d, (0..script.len()).collect(), vec![])
        } else {
            let Some((ty, val, order, pre)) = place(p, script, strings) else { continue };
            model_cmp = Some((ty.clone(), val.clone()));
            let enc = dyn_encode(&ty, &val);
            st.transitions += 1;
            let Out::Ok(b) = enc else {
                bad(st, "encode", json!({"result": format!("{enc:?}")}));
                continue;
            };
            let d = dyn_decode(&ty, &b);
            st.transitions += 1;
            // strings in script order out of the decoded value
            fn collect(v: &Val, out: &mut Vec<String>) {
                match v {
                    Val::Str(s) => out.push(s.clone()),
                    Val::Tuple(xs) | Val::Rec(xs) | Val::Seq(xs) => xs.iter().for_each(|x| collect(x, out)),
                    _ => {}
                }
            }
            let d = d.map(|v| {
                let mut in_decl_order = Vec::new();
                collect(&v, &mut in_decl_order);
                // back to script order
                let mut by_script = vec![String::new(); script.len()];
                let decl: Vec<usize> = if p == Placement::Evolved { order.clone() } else { (0..script.len()).collect() };
                for (pos, &i) in decl.iter().enumerate() {
                    if pos < in_decl_order.len() {
                        by_script[i] = in_decl_order[pos].clone();
                    }
                }
                by_script
            });
            (b, d, order, pre)
        };
        st.states += 1;
        st.validated += 1;
        // (1) decode == written
        let want: Vec<String> = ops.iter().map(|o| o.1.clone()).collect();
        if decoded != Out::Ok(want.clone()) {
            bad(st, "decoded-strings-differ", json!({"bytes": hex(&bytes), "decoded": format!("{decoded:?}").chars().take(300).collect::<String>()}));
            continue;
        }
        // the format model must write the same stream
        if let Some((ty, val)) = &model_cmp {
            st.validated += 1;
            match ref_encode(ty, val) {
                Ok(mb) if mb.b == bytes => {}
                other => {
                    bad(st, "bytes-differ-from-model", json!({"library": hex(&bytes), "model": other.map(|m| hex(&m.b)).map_err(|e| format!("{e:?}")), "value": val_json(val)}));
                    continue;
                }
            }
        }
        // (2) each write is, in stream-processing order, a first occurrence in plain form or a
        //     back-reference vari(-id) with ids from 1 in first-occurrence order
        let in_proc: Vec<(bool, String)> = proc_order.iter().map(|&i| ops[i].clone()).collect();
        let parts = expected_string_part(&pre, &in_proc);
        // unframed placements: the stream is exactly the concatenation (after the leading
        // version byte / count); framed ones: every expected encoding occurs in the stream (their
        // byte order may differ from processing order) and the model comparison above is exact
        let concat: Vec<u8> = parts.iter().flatten().copied().collect();
        let mut ok = match p {
            Placement::Flat => bytes == concat,
            Placement::Tuple | Placement::RecordV0 => bytes[1..] == concat[..],
            Placement::Seq => bytes[vari(script.len() as i32).len()..] == concat[..],
            _ => true,
        };
        for part in &parts {
            if !part.is_empty() && !bytes.windows(part.len()).any(|w| w == &part[..]) {
                ok = false;
            }
        }
        let total: usize = parts.iter().map(|p| p.len()).sum();
        let repeats = in_proc.iter().enumerate().filter(|(i, (d, s))| *d && (pre.contains(s) || in_proc[..*i].iter().any(|(d2, s2)| *d2 && s2 == s))).count();
        if !ok {
            bad(st, "string-encodings-not-as-specified", json!({"bytes": hex(&bytes), "expected_parts": parts.iter().map(|p| hex(p)).collect::<Vec<_>>()}));
            continue;
        }
        // (3) without a repeat the stream is byte-identical to the all-plain stream
        if repeats == 0 {
            let plain: Vec<(bool, usize)> = script.iter().map(|(_, i)| (false, *i)).collect();
            let plain_bytes: Option<Vec<u8>> = if p == Placement::Flat {
                match flat_encode(&plain.iter().map(|(d, i)| (*d, strings[*i].clone())).collect::<Vec<_>>()) {
                    Out::Ok(b) => Some(b),
                    _ => None,
                }
            } else if p == Placement::Seq {
                // Vec<String> instead of Vec<DeduplicatedString>
                match dyn_encode(&Ty::Seq(SeqKind::Vec, Box::new(Ty::Str)), &Val::Seq(want.iter().map(|s| Val::Str(s.clone())).collect())) {
                    Out::Ok(b) => Some(b),
                    _ => None,
                }
            } else {
                place(p, &plain, strings).and_then(|(ty, val, _, _)| match dyn_encode(&ty, &val) {
                    Out::Ok(b) => Some(b),
                    _ => None,
                })
            };
            st.transitions += 1;
            if plain_bytes.as_ref() != Some(&bytes) {
                bad(st, "deduplication-costs-bytes-without-repeats", json!({"bytes": hex(&bytes), "plain_stream": plain_bytes.map(|b| hex(&b))}));
                continue;
            }
            st.bump("no-repeat:identical-to-plain");
        } else {
            // each repeat is at most five bytes whatever the string's length: the stream is
            // shorter than the plain stream by exactly the saved bytes
            st.bump("with-repeats");
            st.nontrivial += 1;
            if st.samples.len() < 2 && script.len() == 4 && p == Placement::EvolvedRemovedNames {
                st.sample(json!({"script": label, "placement": format!("{p:?}"), "stream": hex(&bytes), "decoded": want}));
            }
            let _ = total;
        }
        // (4) ids never introduced decode to Err
        if let Some((ty, val, _, _)) = place(p, script, strings) {
            if let Ok(mb) = ref_encode(&ty, &val) {
                let max_id = {
                    let mut t: Vec<&String> = Vec::new();
                    for s in pre.iter().chain(in_proc.iter().filter(|o| o.0).map(|o| &o.1)) {
                        if !t.contains(&s) {
                            t.push(s);
                        }
                    }
                    t.len() as i32
                };
                for m in mb.marks.iter().filter(|m| m.kind == MarkKind::StrRef) {
                    for nid in [max_id + 1, i32::MAX, i32::MIN] {
                        let mut t = bytes[..m.off].to_vec();
                        t.extend(vari(if nid == i32::MIN { i32::MIN } else { -nid }));
                        t.extend_from_slice(&bytes[m.off + m.len..]);
                        // the rewritten id may change the length of an enclosing chunk: only
                        // unframed placements keep the rest of the stream meaningful
                        if matches!(p, Placement::Tuple | Placement::Seq | Placement::RecordV0) {
                            let d = dyn_decode(&ty, &t);
                            st.transitions += 1;
                            st.validated += 1;
                            if !matches!(d, Out::Err(_)) {
                                bad(st, "unknown-string-id-accepted", json!({"bytes": hex(&t), "id": nid, "result": format!("{d:?}").chars().take(200).collect::<String>()}));
                            } else {
                                st.bump("unknown-id:Err");
                            }
                        }
                    }
                }
            }
        }
    }
}

pub fn run_c09(tier: &str, only: Option<String>) -> i32 {
    let mut run = Run::new("C09", tier, "model_checking", only);
    let thorough = run.thorough();
    let max_len = if thorough { 6 } else { 5 };
    // thorough: length 7 in the two placements where stream order and header names matter most
    let deep_len = if thorough { 7 } else { 0 };
    let strings = alphabet();
    // work items: scripts grouped by their first op and length
    let mut items = Vec::new();
    items.push(C09Item { first: usize::MAX, len: 0 });
    for len in 1..=std::cmp::max(max_len, deep_len) {
        for first in 0..8 {
            items.push(C09Item { first, len });
        }
    }
    let sel = run.only.clone();
    let stats = par_items(&items, Some(bridge::rt::hang_limit()), &|it: &C09Item| {
        println!("  hang in scripts of length {} starting with op {}", it.len, it.first);
    }, &|it: &C09Item, st: &mut Stats| {
        if it.len == 0 {
            c09_script(&[], st, &strings, &sel, false);
            return;
        }
        let mut idx = vec![0usize; it.len];
        idx[0] = it.first;
        loop {
            let script: Vec<(bool, usize)> = idx.iter().map(|&o| (o >= 4, o % 4)).collect();
            c09_script(&script, st, &strings, &sel, it.len > max_len);
            // odometer over positions 1..
            let mut i = it.len;
            loop {
                if i == 1 {
                    return;
                }
                i -= 1;
                idx[i] += 1;
                if idx[i] < 8 {
                    break;
                }
                idx[i] = 0;
            }
        }
    });
    run.stats = stats;
    // the derive macro decides the order in which a record's fields are written and read: the
    // compiled declarations with deduplicated strings in evolved records (declaration order
    // different from chunk order, removed / transient names in the header, inside an enum
    // constructor) must number strings like the model does
    if run.only.as_ref().map(|k| k.starts_with("c09derived")).unwrap_or(true) {
        let u = crate::common::load();
        let mut st = Stats::default();
        let p = refmodel::values::Params { leaf_k: 4, seq_len: 1, elem_k: 2, cap: 300, rec_depth: 1 };
        for e in u.entries.iter().filter(|e| e.tags.contains(&"dedup_evolved")) {
            for (vi, v) in refmodel::values::values(&e.ty, &p).into_iter().enumerate() {
                st.states += 1;
                let key = format!("c09derived:{}#{vi}", e.name);
                let r = &(e.enc)(&v, &[bridge::Sink::ToByteVec])[0];
                st.transitions += 1;
                st.validated += 1;
                let model = ref_encode(&e.ty, &r.actual).map(|m| m.b);
                let ok_bytes = matches!((&r.out, &model), (Out::Ok(b), Ok(mb)) if b == mb);
                let back = match &r.out {
                    Out::Ok(b) => {
                        st.transitions += 1;
                        Some((e.dec)(b).out)
                    }
                    _ => None,
                };
                let want = with_transient_defaults(&e.ty, &r.actual);
                let ok_dec = matches!(&back, Some(Out::Ok(g)) if canon(&e.ty, g) == canon(&e.ty, &want));
                if !ok_dec {
                    st.violate(
                        format!("C09 derived-record decoded-strings-differ type={}", e.name),
                        key,
                        json!({"declaration": bridge::rt::ty_name(&e.ty), "value": val_json(&v), "bytes": format!("{:?}", r.out).chars().take(200).collect::<String>(), "decoded": format!("{back:?}").chars().take(300).collect::<String>()}),
                    );
                } else if !ok_bytes {
                    st.violate(
                        format!("C09 derived-record string-ids-not-in-processing-order type={}", e.name),
                        key,
                        json!({"declaration": bridge::rt::ty_name(&e.ty), "value": val_json(&v), "library": format!("{:?}", r.out).chars().take(200).collect::<String>(), "model": model.map(|b| hex(&b)).map_err(|e| format!("{e:?}"))}),
                    );
                } else {
                    st.bump("derived-evolved-record");
                    st.nontrivial += 1;
                }
            }
        }
        run.stats.merge(st);
    }
    run.rule = format!("all scripts of length <= {max_len} over 8 operations (deduplicated | plain write of one of 4 strings) x 8 placements (flat, tuple, Vec, v0 record, evolved record with an added field declared first, evolved record whose header carries removed/transient names equal to script strings, evolved inside evolved, evolved record whose header names two fields twice each: made optional and later removed / made transient); oracle: decoded == written, every write encoded as first-occurrence-plain or vari(-id) in stream-processing order, no-repeat streams identical to the plain stream, unknown ids are Err; non-trivial = script with at least one repeat");
    run.bounds = json!({"script_length": max_len, "strings": ["", "a", "zz", "200 x é"]});
    run.finish()
}

// ------------------------------------------------------------------------------------------ C10

/// adjacency: per node an ordered list of out-edge targets (length <= 2)
type Adj = Vec<Vec<usize>>;

fn edge_lists(n: usize) -> Vec<Vec<usize>> {
    let mut v: Vec<Vec<usize>> = vec![vec![]];
    for a in 0..n {
        v.push(vec![a]);
    }
    for a in 0..n {
        for b in 0..n {
            v.push(vec![a, b]);
        }
    }
    v
}

fn build(adj: &Adj) -> (Graph, Vec<Rc<Node>>) {
    let nodes: Vec<Rc<Node>> = (0..adj.len()).map(|i| Node::new(10 + i as u8)).collect();
    for (i, es) in adj.iter().enumerate() {
        for &t in es {
            nodes[i].edges.borrow_mut().push(nodes[t].clone());
        }
    }
    (Graph { root: nodes[0].clone() }, nodes)
}

/// reference stream: pre-order first-encounter numbering, `0` + body once per reachable node
fn reference(adj: &Adj) -> (Vec<u8>, Vec<(usize, usize, u32)>, usize) {
    // returns bytes, (offset, len, introduced-before) of every reference/new marker, reachable count
    fn offer(adj: &Adj, n: usize, ids: &mut Vec<u32>, next: &mut u32, out: &mut Vec<u8>, marks: &mut Vec<(usize, usize, u32)>) {
        if ids[n] != 0 {
            let e = varu(ids[n]);
            marks.push((out.len(), e.len(), *next));
            out.extend(e);
            return;
        }
        *next += 1;
        ids[n] = *next;
        marks.push((out.len(), 1, *next));
        out.push(0);
        out.push(10 + n as u8);
        out.push(adj[n].len() as u8);
        for &t in &adj[n] {
            offer(adj, t, ids, next, out, marks);
        }
    }
    let mut ids = vec![0u32; adj.len()];
    let mut next = 0u32;
    let mut out = Vec::new();
    let mut marks = Vec::new();
    offer(adj, 0, &mut ids, &mut next, &mut out, &mut marks);
    (out, marks, next as usize)
}

/// label- and edge-order-preserving bijection on reachable nodes, with pointer equality
fn isomorphic(adj: &Adj, root: &Rc<Node>) -> Result<usize, String> {
    let mut map: Vec<Option<*const Node>> = vec![None; adj.len()];
    let mut stack: Vec<(usize, Rc<Node>)> = vec![(0, root.clone())];
    let mut seen_ptrs: Vec<(*const Node, usize)> = Vec::new();
    while let Some((i, n)) = stack.pop() {
        let p = Rc::as_ptr(&n);
        match map[i] {
            Some(q) => {
                if q != p {
                    return Err(format!("node {i} was shared in the original but decoded into two objects"));
                }
                continue;
            }
            None => {
                if let Some((_, j)) = seen_ptrs.iter().find(|(q, _)| *q == p) {
                    return Err(format!("distinct nodes {i} and {j} decoded into one object"));
                }
                map[i] = Some(p);
                seen_ptrs.push((p, i));
            }
        }
        if n.label != 10 + i as u8 {
            return Err(format!("node {i} has label {}", n.label));
        }
        let es = n.edges.borrow();
        if es.len() != adj[i].len() {
            return Err(format!("node {i} has {} edges, expected {}", es.len(), adj[i].len()));
        }
        for (k, &t) in adj[i].iter().enumerate() {
            stack.push((t, es[k].clone()));
        }
    }
    Ok(seen_ptrs.len())
}

struct C10Item {
    n: usize,
    first: usize,
}

fn c10_graph(adj: &Adj, st: &mut Stats, only: &Option<String>) {
    let key = format!("c10:{adj:?}");
    if let Some(k) = only {
        if *k != key {
            return;
        }
    }
    st.states += 1;
    let mut bad = |st: &mut Stats, what: &str, detail: serde_json::Value| {
        let shape = format!("nodes={} edges={}", adj.len(), adj.iter().map(|e| e.len()).sum::<usize>());
        st.violate(format!("C10 {what} {shape}"), key.clone(), json!({"adjacency": adj, "detail": detail}));
    };
    let (g, nodes) = build(adj);
    let enc = graph_encode(&g);
    st.transitions += 1;
    let (refb, marks, reachable) = reference(adj);
    let cleanup = |nodes: &Vec<Rc<Node>>| {
        for n in nodes {
            n.edges.borrow_mut().clear();
        }
    };
    let Out::Ok(b) = enc else {
        bad(st, "encode", json!({"result": format!("{enc:?}")}));
        cleanup(&nodes);
        return;
    };
    st.validated += 1;
    if b != refb {
        bad(st, "stream-differs-from-reference-numbering", json!({"library": hex(&b), "reference": hex(&refb)}));
        cleanup(&nodes);
        return;
    }
    match graph_decode(&b) {
        Out::Ok(d) => {
            st.transitions += 1;
            st.validated += 1;
            match isomorphic(adj, &d.root) {
                Ok(cnt) if cnt == reachable && d.all.len() == reachable => {
                    let cyclic = marks.iter().any(|m| m.1 >= 1 && b[m.0] != 0);
                    st.bump(if cyclic { "shared-or-cyclic" } else { "tree" });
                    if cyclic {
                        st.nontrivial += 1;
                    }
                }
                Ok(cnt) => bad(st, "object-count", json!({"decoded_objects": d.all.len(), "mapped": cnt, "reachable": reachable})),
                Err(e) => bad(st, "not-isomorphic", json!({"bytes": hex(&b), "problem": e})),
            }
            d.dispose();
        }
        o => {
            let s = match &o {
                Out::Err(e) => format!("{e:?}"),
                Out::Panic(p) => p.clone(),
                _ => String::new(),
            };
            bad(st, "decode", json!({"bytes": hex(&b), "result": s}));
        }
    }
    // the same graph as a field of a record (plain, and in either chunk of an evolved one): the
    // markers and bodies must land where the field's bytes go, and come back as the same shape
    for place in GRAPH_PLACES {
        if place == GraphPlace::Top {
            continue;
        }
        let want: Vec<u8> = bridge::tables::frame_at(&refb, place);
        st.transitions += 1;
        st.validated += 1;
        match graph_encode_at(&g, place) {
            Out::Ok(pb) if pb == want => {}
            o => {
                bad(st, &format!("stream-differs placement={place:?}"), json!({"library": format!("{o:?}").chars().take(300).collect::<String>(), "reference": hex(&want)}));
                cleanup(&nodes);
                return;
            }
        }
        st.transitions += 1;
        st.validated += 1;
        match graph_decode_at(&want, place) {
            Out::Ok(d) => {
                let r = isomorphic(adj, &d.root);
                let n_all = d.all.len();
                d.dispose();
                match r {
                    Ok(cnt) if cnt == reachable && n_all == reachable => st.bump("embedded-in-record"),
                    other => {
                        bad(st, &format!("not-isomorphic placement={place:?}"), json!({"bytes": hex(&want), "problem": format!("{other:?}"), "decoded_objects": n_all}));
                        cleanup(&nodes);
                        return;
                    }
                }
            }
            o => {
                bad(st, &format!("decode placement={place:?}"), json!({"bytes": hex(&want), "result": format!("{:?}", o.class())}));
                cleanup(&nodes);
                return;
            }
        }
    }
    // every id rewritten to one more than the number of objects introduced so far, and to u32::MAX
    for (off, len, introduced) in &marks {
        for nid in [*introduced + 1, *introduced + 2, u32::MAX] {
            // at a "new object" marker the count includes the object itself
            let cur_is_new = b[*off] == 0 && *len == 1;
            let limit = if cur_is_new { *introduced - 1 } else { *introduced };
            if nid <= limit {
                continue;
            }
            let mut t = b[..*off].to_vec();
            t.extend(varu(nid));
            t.extend_from_slice(&b[off + len..]);
            let d = graph_decode(&t);
            st.transitions += 1;
            st.validated += 1;
            match d {
                Out::Err(_) => st.bump("unknown-ref-id:Err"),
                Out::Ok(dd) => {
                    dd.dispose();
                    bad(st, "unknown-reference-id-accepted", json!({"bytes": hex(&t), "id": nid, "introduced_before": limit}));
                }
                Out::Panic(p) => bad(st, "unknown-reference-id-panics", json!({"bytes": hex(&t), "id": nid, "panic": p})),
            }
        }
    }
    cleanup(&nodes);
    if st.samples.is_empty() && adj.len() == 3 && adj[2] == vec![0, 2] {
        st.sample(json!({"adjacency": adj, "stream": hex(&b), "reachable": reachable}));
    }
}

/// the same copy of the library call, compiled in this crate
#[inline(never)]
fn offer_node_from_vcheck(n: &Node, ctx: &mut desert::SerializationContext<Vec<u8>>) -> desert::Result<bool> {
    ctx.store_ref_or_object(n)
}

/// One object offered from code in two crates (each has its own instantiation of the generic
/// library call, hence possibly its own vtable for `Node as Any`): it is still one object. Every
/// order of three offers from the two crates, for one and for two distinct nodes.
fn c10_two_crates(st: &mut Stats) {
    use desert::BinaryOutput;
    for pattern in 0..8u8 {
        for two_nodes in [false, true] {
            let a = Node::new(11);
            let b = Node::new(12);
            let (o, _) = bridge::err::guarded(|| {
                let mut ctx = desert::SerializationContext::new(Vec::new());
                let mut seen: Vec<*const Node> = Vec::new();
                let mut expect: Vec<u8> = Vec::new();
                for k in 0..3 {
                    let n: &Node = if two_nodes && k == 1 { &b } else { &a };
                    let from_bridge = pattern >> k & 1 == 1;
                    let is_new = if from_bridge { bridge::tables::offer_node_from_bridge(n, &mut ctx)? } else { offer_node_from_vcheck(n, &mut ctx)? };
                    match seen.iter().position(|p| std::ptr::eq(*p, n)) {
                        Some(i) => expect.extend(varu(i as u32 + 1)),
                        None => {
                            seen.push(n);
                            expect.extend([0, n.label]);
                        }
                    }
                    if is_new {
                        ctx.write_u8(n.label);
                    }
                }
                Ok((ctx.into_output(), expect))
            });
            st.states += 1;
            st.transitions += 3;
            st.validated += 1;
            match o {
                Out::Ok((got, want)) if got == want => {
                    st.bump("offers-from-two-crates");
                    st.nontrivial += 1;
                }
                other => {
                    let crates: Vec<&str> = (0..3).map(|k| if pattern >> k & 1 == 1 { "bridge" } else { "vcheck" }).collect();
                    st.violate(
                        "C10 one object offered from code in two crates is written as two objects".into(),
                        "c10:two-crates".into(),
                        json!({"offers_from": crates, "second_offer_is_another_node": two_nodes, "result": format!("{other:?}").chars().take(200).collect::<String>()}),
                    );
                    return;
                }
            }
        }
    }
}

/// Two kinds of tracked objects at one address (a node and the core embedded at its offset 0):
/// all graphs with <= n nodes where each node has <= 1 node edge and <= 1 core edge
fn c10_typed(max_n: usize, st: &mut Stats) {
    for n in 1..=max_n {
        let opts: Vec<Option<usize>> = std::iter::once(None).chain((0..n).map(Some)).collect();
        let per_node = opts.len() * opts.len();
        let total = per_node.pow(n as u32);
        for code in 0..total {
            let mut c = code;
            let mut node_edge = Vec::new();
            let mut core_edge = Vec::new();
            for _ in 0..n {
                let k = c % per_node;
                c /= per_node;
                node_edge.push(opts[k % opts.len()]);
                core_edge.push(opts[k / opts.len()]);
            }
            st.states += 1;
            let key = format!("c10typed:{node_edge:?}/{core_edge:?}");
            let nodes: Vec<Rc<WNode>> = (0..n).map(|i| WNode::new(40 + i as u8)).collect();
            for i in 0..n {
                if let Some(t) = node_edge[i] {
                    nodes[i].edges.borrow_mut().push(nodes[t].clone());
                }
                if let Some(t) = core_edge[i] {
                    nodes[i].core_edges.borrow_mut().push(nodes[t].clone());
                }
            }
            // reference: nodes and cores are numbered separately-typed but in one id space, in
            // order of first offer
            fn offer_core(t: usize, core_id: &mut Vec<u32>, next: &mut u32, out: &mut Vec<u8>) {
                if core_id[t] != 0 {
                    out.extend(varu(core_id[t]));
                } else {
                    *next += 1;
                    core_id[t] = *next;
                    out.push(0);
                    out.push(40 + t as u8);
                }
            }
            fn offer_node(i: usize, ne: &[Option<usize>], ce: &[Option<usize>], node_id: &mut Vec<u32>, core_id: &mut Vec<u32>, next: &mut u32, out: &mut Vec<u8>) {
                if node_id[i] != 0 {
                    out.extend(varu(node_id[i]));
                    return;
                }
                *next += 1;
                node_id[i] = *next;
                out.push(0);
                offer_core(i, core_id, next, out);
                out.push(ne[i].is_some() as u8);
                if let Some(t) = ne[i] {
                    offer_node(t, ne, ce, node_id, core_id, next, out);
                }
                out.push(ce[i].is_some() as u8);
                if let Some(t) = ce[i] {
                    offer_core(t, core_id, next, out);
                }
            }
            let mut node_id = vec![0u32; n];
            let mut core_id = vec![0u32; n];
            let mut next = 0u32;
            let mut refb = Vec::new();
            offer_node(0, &node_edge, &core_edge, &mut node_id, &mut core_id, &mut next, &mut refb);
            let enc = wgraph_encode(&WGraph { root: nodes[0].clone() });
            st.transitions += 1;
            st.validated += 1;
            if enc != Out::Ok(refb.clone()) {
                st.violate(
                    "C10 typed-identities: objects of different types at one address are not kept apart".to_string(),
                    key,
                    json!({"node_edges": format!("{node_edge:?}"), "core_edges": format!("{core_edge:?}"), "library": format!("{enc:?}"), "reference": hex(&refb)}),
                );
            } else {
                st.bump("typed-identities:stream-as-reference");
                st.nontrivial += 1;
            }
            for nd in &nodes {
                nd.edges.borrow_mut().clear();
                nd.core_edges.borrow_mut().clear();
            }
        }
    }
    // reader side: ids resolve to the object (and type) they were given to
    for n in 1..=3 {
        let got = typed_lookup(n);
        st.states += 1;
        st.transitions += 1;
        st.validated += 1;
        let mut want = Vec::new();
        for i in 0..n {
            want.push(format!("node{i}"));
            want.push(format!("core{i}"));
        }
        want.push("none".to_string());
        if got != Out::Ok(want.clone()) {
            st.violate(
                "C10 typed-identities: lookup by id returns another object".to_string(),
                format!("c10lookup:{n}"),
                json!({"got": format!("{got:?}"), "expected": want}),
            );
        } else {
            st.bump("typed-identities:lookup");
        }
    }
}

/// chains of n nodes with one back edge from the last node to node k: ids of two and more varint
/// bytes (n up to 600; k around every 7-bit and 8-bit boundary)
fn c10_long_chains(st: &mut Stats) {
    for n in [130usize, 300, 600] {
        let targets: Vec<usize> = [0usize, 1, 126, 127, 128, 129, 254, 255, 256, 257, 300, 382, 383, 384, 385, 511, 512, 513, 599]
            .into_iter()
            .filter(|k| *k < n)
            .collect();
        for k in targets {
            st.states += 1;
            let key = format!("c10chain:{n}/{k}");
            let nodes: Vec<Rc<Node>> = (0..n).map(|i| Node::new((i % 251) as u8)).collect();
            for i in 0..n - 1 {
                nodes[i].edges.borrow_mut().push(nodes[i + 1].clone());
            }
            nodes[n - 1].edges.borrow_mut().push(nodes[k].clone());
            // reference stream
            let mut refb = Vec::new();
            for i in 0..n {
                refb.push(0);
                refb.push((i % 251) as u8);
                refb.push(1);
            }
            refb.extend(varu(k as u32 + 1));
            let enc = graph_encode(&Graph { root: nodes[0].clone() });
            st.transitions += 1;
            st.validated += 1;
            let mut ok = enc == Out::Ok(refb.clone());
            let mut problem = String::from("stream differs from the reference numbering");
            if ok {
                match graph_decode(&refb) {
                    Out::Ok(d) => {
                        st.transitions += 1;
                        // walk the chain; the last node's edge must be the k-th node itself
                        let mut cur = d.root.clone();
                        let mut seen: Vec<Rc<Node>> = vec![cur.clone()];
                        for _ in 0..n - 1 {
                            let next = cur.edges.borrow()[0].clone();
                            seen.push(next.clone());
                            cur = next;
                        }
                        let back = cur.edges.borrow()[0].clone();
                        if !Rc::ptr_eq(&back, &seen[k]) || d.all.len() != n {
                            ok = false;
                            problem = format!("back edge of the last node does not point to node {k} (objects: {})", d.all.len());
                        }
                        d.dispose();
                    }
                    o => {
                        ok = false;
                        problem = match o {
                            Out::Err(e) => format!("decode failed: {e:?}"),
                            Out::Panic(p) => format!("decode panicked: {p}"),
                            _ => String::new(),
                        };
                    }
                }
            }
            for nd in &nodes {
                nd.edges.borrow_mut().clear();
            }
            if ok {
                st.bump("long-chain");
                st.nontrivial += 1;
            } else {
                st.violate(format!("C10 long-chain nodes={n} back-edge-to={k}"), key, json!({"problem": problem}));
            }
        }
    }
}

pub fn run_c10(tier: &str, only: Option<String>) -> i32 {
    let mut run = Run::new("C10", tier, "model_checking", only);
    let thorough = run.thorough();
    let max_n = if thorough { 4 } else { 3 };
    let mut items = Vec::new();
    for n in 1..=max_n {
        for first in 0..edge_lists(n).len() {
            items.push(C10Item { n, first });
        }
    }
    if thorough {
        // five nodes with out-degree <= 1 (7 776 graphs): longer cycles and chains
        for first in 0..6 {
            items.push(C10Item { n: 5, first });
        }
    }
    let sel = run.only.clone();
    let stats = par_items(&items, Some(bridge::rt::hang_limit()), &|it: &C10Item| {
        println!("  fingerprint: C10 encoding or decoding does not terminate (graphs with {} nodes, root edge list #{})", it.n, it.first);
    }, &|it: &C10Item, st: &mut Stats| {
        let lists: Vec<Vec<usize>> = if it.n == 5 { edge_lists(5).into_iter().filter(|l| l.len() <= 1).collect() } else { edge_lists(it.n) };
        let mut idx = vec![0usize; it.n];
        idx[0] = it.first;
        loop {
            let adj: Adj = idx.iter().map(|&i| lists[i].clone()).collect();
            c10_graph(&adj, st, &sel);
            let mut i = it.n;
            loop {
                if i == 1 {
                    return;
                }
                i -= 1;
                idx[i] += 1;
                if idx[i] < lists.len() {
                    break;
                }
                idx[i] = 0;
            }
        }
    });
    run.stats = stats;
    if run.only.as_ref().map(|k| k.starts_with("c10typed") || k.starts_with("c10lookup") || k.starts_with("c10:two-crates")).unwrap_or(true) {
        let mut st = Stats::default();
        c10_two_crates(&mut st);
        c10_typed(if thorough { 4 } else { 3 }, &mut st);
        c10_long_chains(&mut st);
        run.stats.merge(st);
    }
    run.rule = format!("all rooted digraphs with <= {max_n} nodes and ordered out-edge lists of length <= 2 (self-loops, diamonds, back edges, unreachable nodes), encoded by a codec that offers the node's heap address to store_ref_or_object and resolves try_read_ref through a Weak self pointer; oracle: stream == pre-order first-encounter reference stream, decoded graph isomorphic with pointer-equal sharing and distinct nodes distinct, one object per reachable node, every reference id beyond the objects introduced so far (and u32::MAX) is Err; every graph also as a field of a record written through the real Adt API (a record without steps, and chunk 0 / chunk 1 of a record with a FieldAdded step): bytes == record framing around the same reference stream, decoded shape isomorphic, sibling fields intact; plus all graphs with <= 3 / 4 nodes whose nodes embed a second tracked object (a core at offset 0, i.e. at the same address) with <= 1 node edge and <= 1 core edge each: distinct objects of different types at one address keep distinct ids, on the writer and on the reader side; one and two nodes offered three times from code compiled in two crates (each with its own instantiation of the library call), in all 8 orders: one object stays one object; non-trivial = graph with sharing or a cycle");
    run.bounds = json!({"nodes": max_n, "out_degree": 2});
    run.assumptions = vec!["the harness codec is safe code: identities are heap addresses owned by live Rc's".into()];
    run.finish()
}
