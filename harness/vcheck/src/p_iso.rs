//! C18: calls are isolated and deterministic. (a) schedules: the `vsched` binary (shuttle DFS),
//! (b) call histories: every sequence of calls in a fresh process, (c) encoding twice.
use crate::common::{self, U};
use bridge::rt::{hex, par_items, unhex, Run, Stats};
use bridge::tables::{graph_encode, Graph, Node};
use bridge::{Out, Sink};
use refmodel::values::values;
use refmodel::*;
use serde_json::json;

const N_CALLS: usize = 11;
const CALL_NAMES: [&str; N_CALLS] = [
    "enc struct{N1 nested evolved, DeduplicatedString}",
    "dec of the same type",
    "enc Vec<DeduplicatedString> with a repeat",
    "enc graph with a cycle (reference table)",
    "enc enum with an evolved struct variant",
    "enc (u8, String)",
    "dec Vec<DeduplicatedString> with back-references",
    "enc evolved history declaration",
    "enc that FAILS in a later chunk (transient constructor) after chunk 0 was written",
    "dec graph with a cycle (fills the reference table)",
    "dec stream that cites reference 1 before any object (must be InvalidRefId)",
];

struct Subjects {
    nested: String,
    nested_val: Val,
    enum_name: String,
    enum_val: Val,
    hist: String,
    hist_val: Val,
}

fn subjects(u: &U) -> Subjects {
    // struct with an evolved nested record followed by a deduplicated string
    let nested = u
        .spec
        .decls
        .iter()
        .find(|d| {
            d.tags.contains(&"two_fields")
                && matches!(&d.ty, Ty::Record(rd) if rd.fields.len() == 2
                    && matches!(&rd.fields[0].ty, Ty::Record(n) if n.name == "N1")
                    && rd.fields[1].ty == Ty::DedupStr
                    && rd.fields.iter().all(|f| f.transient.is_none()))
        })
        .expect("struct {N1, Dedup} in the universe");
    let nested_val = Val::Rec(vec![Val::Rec(vec![Val::U(3), Val::some(Val::s("zz"))]), Val::s("zz")]);
    let en = u
        .spec
        .decls
        .iter()
        .find(|d| matches!(&d.ty, Ty::Enum(e) if e.variants.len() == 2 && !e.sorted && e.variants[1].record.steps.len() == 2 && e.variants[0].record.fields.is_empty() && !e.variants[0].transient) && !d.tags.contains(&"extension"))
        .expect("enum [Unit, StructEvolved]");
    let enum_val = Val::Enum(1, vec![Val::some(Val::s("a")), Val::some(Val::U(4))]);
    let hi = u.spec.histories.iter().position(|h| h.steps.len() == 2 && matches!(h.steps[0], evo::HStep::MakeOptional(_)) && matches!(h.steps[1], evo::HStep::Add { .. })).expect("history Opt.Add");
    let hist = u.spec.hist_decl[hi][2].clone();
    let hist_ty = u.get(&hist).ty.clone();
    let hist_val = values(&hist_ty, &common::params_for(false)).into_iter().nth(3).expect("value");
    Subjects { nested: nested.name.clone(), nested_val, enum_name: en.name.clone(), enum_val, hist, hist_val }
}

fn render(o: Out<Vec<u8>>) -> Vec<u8> {
    match o {
        Out::Ok(b) => b,
        Out::Err(e) => format!("ERR {e:?}").into_bytes(),
        Out::Panic(p) => format!("PANIC {p}").into_bytes(),
    }
}

fn call(i: usize, u: &U, s: &Subjects) -> Vec<u8> {
    let enc = |name: &str, v: &Val| render((u.get(name).enc)(v, &[Sink::ToByteVec])[0].out.clone());
    let dec = |name: &str, b: &[u8]| render((u.get(name).dec)(b).out.map(|v| format!("{v:?}").into_bytes()));
    match i {
        0 => enc(&s.nested, &s.nested_val),
        1 => {
            let e = u.get(&s.nested);
            let b = ref_encode(&e.ty, &s.nested_val).expect("model").b;
            dec(&s.nested, &b)
        }
        2 => enc("Vec<desert::DeduplicatedString>", &Val::Seq(vec![Val::s("x"), Val::s("y"), Val::s("x")])),
        3 => {
            let a = Node::new(1);
            let b = Node::new(2);
            let c = Node::new(3);
            a.edges.borrow_mut().push(b.clone());
            b.edges.borrow_mut().push(c.clone());
            c.edges.borrow_mut().push(a.clone());
            c.edges.borrow_mut().push(b.clone());
            let r = render(graph_encode(&Graph { root: a.clone() }));
            for n in [&a, &b, &c] {
                n.edges.borrow_mut().clear();
            }
            r
        }
        4 => enc(&s.enum_name, &s.enum_val),
        5 => enc("(u8, String)", &Val::Tuple(vec![Val::U(7), Val::s("h")])),
        6 => dec("Vec<desert::DeduplicatedString>", &[6, 2, b'x', 2, b'y', 1]),
        7 => enc(&s.hist, &s.hist_val),
        8 => {
            let (ty, v) = failing_subject();
            render(bridge::dynrec::dyn_encode(&ty, &v))
        }
        9 => match bridge::tables::graph_decode(&[0, 1, 1, 0, 2, 1, 0, 3, 2, 1, 2]) {
            Out::Ok(d) => {
                let n = d.all.len();
                d.dispose();
                format!("graph with {n} objects").into_bytes()
            }
            Out::Err(e) => format!("ERR {e:?}").into_bytes(),
            Out::Panic(p) => format!("PANIC {p}").into_bytes(),
        },
        10 => match bridge::tables::first_ref_resolves(&[1]) {
            Out::Ok(b) => format!("resolved={b}").into_bytes(),
            Out::Err(e) => format!("ERR {e:?}").into_bytes(),
            Out::Panic(p) => format!("PANIC {p}").into_bytes(),
        },
        _ => unreachable!(),
    }
}

/// what each call must return, from the reference model / spelled out - not from the library
fn expected(u: &U, s: &Subjects) -> Vec<Vec<u8>> {
    let m = |name: &str, v: &Val| ref_encode(&u.get(name).ty, v).expect("model").b;
    vec![
        m(&s.nested, &s.nested_val),
        format!("{:?}", s.nested_val).into_bytes(),
        m("Vec<desert::DeduplicatedString>", &Val::Seq(vec![Val::s("x"), Val::s("y"), Val::s("x")])),
        vec![0, 1, 1, 0, 2, 1, 0, 3, 2, 1, 2],
        m(&s.enum_name, &s.enum_val),
        m("(u8, String)", &Val::Tuple(vec![Val::U(7), Val::s("h")])),
        format!("{:?}", Val::Seq(vec![Val::s("x"), Val::s("y"), Val::s("x")])).into_bytes(),
        m(&s.hist, &s.hist_val),
        format!("ERR {:?}", bridge::ErrKind::SerializingTransientConstructor { constructor_name: "Temp".into(), type_name: "Att".into() }).into_bytes(),
        b"graph with 3 objects".to_vec(),
        format!("ERR {:?}", bridge::ErrKind::InvalidRefId(1)).into_bytes(),
    ]
}

/// an evolved record whose added (chunk 1) field is a transient constructor: the encode fails
/// after the chunk-0 field has already been written into its buffer
fn failing_subject() -> (Ty, Val) {
    use std::sync::Arc;
    let fld = |name: &str, ty: Ty| FieldDescr { name: name.into(), is_option: false, ty, transient: None, default: None };
    let att = Ty::Enum(Arc::new(EnumDescr {
        name: "Att".into(),
        sorted: false,
        variants: vec![
            VariantDescr { name: "Plain".into(), transient: false, shape: 1, record: RecordDescr { name: "Plain".into(), steps: vec![], fields: vec![fld("field0", Ty::U8)] } },
            VariantDescr { name: "Temp".into(), transient: true, shape: 0, record: RecordDescr { name: "Temp".into(), steps: vec![], fields: vec![] } },
        ],
    }));
    let mut a = fld("att", att);
    a.default = Some(Val::Enum(0, vec![Val::U(0)]));
    let env = Ty::Record(Arc::new(RecordDescr { name: "Envelope".into(), steps: vec![Step::Added("att".into())], fields: vec![fld("id", Ty::U32), a] }));
    (env, Val::Rec(vec![Val::U(0xdead_beef), Val::Enum(1, vec![])]))
}

/// child: `threads` real threads released by a barrier, each doing the calls of `seq` (first use
/// of every type happens under contention); prints "<thread> <hex>" per call
pub fn race_child(seq: &str, threads: usize) -> i32 {
    let u = std::sync::Arc::new(common::load());
    let s = std::sync::Arc::new(subjects(&u));
    let calls: Vec<usize> = seq.split(',').filter(|x| !x.is_empty()).map(|c| c.parse().expect("call index")).collect();
    let barrier = std::sync::Arc::new(std::sync::Barrier::new(threads));
    let mut hs = Vec::new();
    for t in 0..threads {
        let (u, s, barrier, calls) = (u.clone(), s.clone(), barrier.clone(), calls.clone());
        hs.push(std::thread::spawn(move || {
            barrier.wait();
            // threads start at different calls so that encoders and decoders overlap
            let mut out = Vec::new();
            for k in 0..calls.len() {
                let c = calls[(k + t) % calls.len()];
                out.push((c, call(c, &u, &s)));
            }
            out
        }));
    }
    for (t, h) in hs.into_iter().enumerate() {
        match h.join() {
            Ok(obs) => {
                for (c, o) in obs {
                    println!("{t} {c} {}", hex_full(&o));
                }
            }
            Err(_) => println!("{t} PANIC"),
        }
    }
    0
}

/// child: run the given sequence of calls in this fresh process, print one hex line per call
pub fn seq_child(seq: &str) -> i32 {
    let u = common::load();
    let s = subjects(&u);
    for c in seq.split(',').filter(|x| !x.is_empty()) {
        let i: usize = c.parse().expect("call index");
        println!("{}", hex_full(&call(i, &u, &s)));
    }
    0
}

/// values used by the first-use-order part: the first two of a deliberately tiny domain
fn first_use_values(ty: &Ty) -> Vec<Val> {
    refmodel::values::values_small(ty, &refmodel::values::Params { leaf_k: 2, seq_len: 1, elem_k: 1, cap: 4, rec_depth: 1 }).into_iter().take(2).collect()
}

/// one encode + decode of a table row, classified against the model: "ok" or a coarse class of
/// what is wrong (no bytes in it: hash containers iterate in a per-process order)
fn first_use_class(e: &bridge::Entry, v: &Val) -> String {
    let r = &(e.enc)(v, &[Sink::ToByteVec])[0];
    let model = ref_encode(&e.ty, &r.actual);
    match (&r.out, &model) {
        (Out::Ok(b), Ok(mb)) => {
            if *b != mb.b {
                return "encoded bytes differ from the format".into();
            }
            let d = (e.dec)(b);
            match &d.out {
                Out::Ok(back) if canon(&e.ty, back) == canon(&e.ty, &with_transient_defaults(&e.ty, &r.actual)) => "ok".into(),
                Out::Ok(_) => "decodes to another value".into(),
                o => format!("decode gives {}", o.class()),
            }
        }
        (Out::Panic(_), _) => "encode panics".into(),
        (Out::Err(_), Err(_)) => "ok".into(),
        // values the format cannot express have no prescribed outcome
        (o, Err(EncErr::Unrepresentable(_))) => format!("unrepresentable:{}", if o.is_ok() { "Ok" } else { "Err" }),
        (o, m) => format!("encode gives {} where the model gives {}", o.class(), if m.is_ok() { "Ok" } else { "Err" }),
    }
}

/// child: in this fresh process use table row `idx` first (none if out of range), then every row
/// of the table once; prints one line per row: its name and what its calls did
pub fn first_child(idx: usize) -> i32 {
    let u = common::load();
    if let Some(first) = u.entries.get(idx) {
        for v in first_use_values(&first.ty) {
            let _ = first_use_class(first, &v);
        }
    }
    for e in &u.entries {
        let classes: Vec<String> = first_use_values(&e.ty).iter().map(|v| first_use_class(e, v)).collect();
        println!("ROW\t{}\t{}", e.name, classes.join(" | "));
    }
    println!("ROWS\t{}", u.entries.len());
    0
}

fn hex_full(b: &[u8]) -> String {
    b.iter().map(|x| format!("{x:02x}")).collect()
}

fn sequences(depth: usize) -> Vec<Vec<usize>> {
    let mut out: Vec<Vec<usize>> = Vec::new();
    let mut frontier: Vec<Vec<usize>> = vec![vec![]];
    for _ in 0..depth {
        let mut next = Vec::new();
        for p in &frontier {
            for c in 0..N_CALLS {
                let mut q = p.clone();
                q.push(c);
                next.push(q);
            }
        }
        out.extend(next.iter().cloned());
        frontier = next;
    }
    out
}

pub fn run(tier: &str, only: Option<String>) -> i32 {
    let mut run = Run::new("C18", tier, "model_checking", only);
    let u = common::load();
    let thorough = run.thorough();
    let s = subjects(&u);
    let exp = expected(&u, &s);
    let me = std::env::current_exe().expect("own path");

    // (e) supplementary: the same kind of thread bodies under Miri's data-race detector; started
    // first so that it overlaps the other parts, collected at the end
    let race_dir = std::env::var("VRACE_DIR").ok().filter(|s| !s.is_empty());
    let race_log = "/verif/.child-C18-miri.log";
    let race_seeds = if thorough { 48 } else { 4 };
    let race_args: (&str, &str) = if thorough { ("4", "2") } else { ("3", "1") };
    let mut race_child = None;
    if let Some(dir) = &race_dir {
        if run.only.as_ref().map(|k| k == "miri-race").unwrap_or(true) {
            let _ = std::fs::remove_file(race_log);
            let f = std::fs::File::create(race_log).expect("race log");
            let f2 = f.try_clone().expect("clone");
            let ch = std::process::Command::new("cargo")
                .args(["+nightly", "miri", "run", "--offline", "-q", "-p", "race", "--", race_args.0, race_args.1])
                .current_dir(dir)
                .env("CARGO_TARGET_DIR", "/verif/.target-witness")
                .env("MIRIFLAGS", format!("-Zmiri-disable-isolation -Zmiri-ignore-leaks -Zmiri-many-seeds=0..{race_seeds}"))
                .stdout(f)
                .stderr(f2)
                .spawn();
            match ch {
                Ok(c) => race_child = Some(c),
                Err(e) => run.caps_hit.push(format!("Miri data-race run could not be started: {e}")),
            }
        }
    }

    // what each call returns alone, in a fresh process of its own: the yardstick of (b) and (d).
    // (Whether that is what the format prescribes is the business of the properties about the
    // format; it is only counted here.)
    let alone: Vec<Vec<u8>> = (0..N_CALLS)
        .map(|c| {
            let out = std::process::Command::new(&me).arg("C18-seq").arg(c.to_string()).stderr(std::process::Stdio::null()).output();
            match out {
                Ok(o) if o.status.success() => String::from_utf8_lossy(&o.stdout).lines().next().map(unhex).unwrap_or_else(|| b"<no output>".to_vec()),
                _ => b"<the process of the single call died>".to_vec(),
            }
        })
        .collect();
    run.stats.add("calls_whose_result_alone_is_what_the_model_prescribes", alone.iter().zip(&exp).filter(|(a, e)| a == e).count() as u64);

    // (b) call histories, each in a fresh process
    let depth = if thorough { 4 } else { 3 };
    let seqs: Vec<Vec<usize>> = sequences(depth)
        .into_iter()
        .filter(|q| run.only.as_ref().map(|k| *k == format!("seq:{q:?}")).unwrap_or(true))
        .collect();
    let skip_b = run.only.as_ref().map(|k| !k.starts_with("seq:")).unwrap_or(false);
    if !skip_b {
        let st = par_items(&seqs, Some(bridge::rt::hang_limit()), &|_| {}, &|q: &Vec<usize>, st: &mut Stats| {
            let arg = q.iter().map(|c| c.to_string()).collect::<Vec<_>>().join(",");
            let mut ch = std::process::Command::new(&me)
                .arg("C18-seq")
                .arg(&arg)
                .stdout(std::process::Stdio::piped())
                .stderr(std::process::Stdio::piped())
                .spawn()
                .expect("spawn");
            if bridge::rt::wait_with_timeout(&mut ch, std::time::Duration::from_secs(120)).is_none() {
                st.violate(format!("C18 call-history process does not terminate calls={q:?}"), format!("seq:{q:?}"), json!({}));
                return;
            }
            let out = ch.wait_with_output().expect("output");
            st.states += 1;
            let key = format!("seq:{q:?}");
            if !out.status.success() {
                st.violate(format!("C18 call-history process died calls={q:?}"), key, json!({"status": format!("{}", out.status), "stderr": String::from_utf8_lossy(&out.stderr).chars().take(300).collect::<String>()}));
                return;
            }
            let lines: Vec<Vec<u8>> = String::from_utf8_lossy(&out.stdout).lines().map(unhex).collect();
            if lines.len() != q.len() {
                st.violate(format!("C18 call-history output incomplete calls={q:?}"), key, json!({}));
                return;
            }
            for (pos, (c, obs)) in q.iter().zip(&lines).enumerate() {
                st.transitions += 1;
                st.validated += 1;
                if *obs != alone[*c] {
                    st.violate(
                        format!("C18 call-history call='{}' position={pos} after={:?}", CALL_NAMES[*c], &q[..pos].iter().map(|x| CALL_NAMES[*x]).collect::<Vec<_>>()),
                        key.clone(),
                        json!({"sequence": q.iter().map(|x| CALL_NAMES[*x]).collect::<Vec<_>>(), "position": pos, "returned": hex(obs), "alone": hex(&alone[*c])}),
                    );
                    return;
                }
            }
            st.bump(&format!("sequences-of-length-{}", q.len()));
            if q.len() > 1 {
                st.nontrivial += 1;
            }
            if q.len() == 3 && q[0] == 0 && q[1] == 6 && q[2] == 2 {
                st.sample(json!({"fresh_process_sequence": q.iter().map(|x| CALL_NAMES[*x]).collect::<Vec<_>>(), "observations": lines.iter().map(|l| hex(l)).collect::<Vec<_>>()}));
            }
        });
        run.stats.merge(st);
    }

    // (c) encoding the same instance again gives the same bytes (whole universe)
    if run.only.is_none() {
        let its = crate::p_values::items(&u, &run, &|_| true);
        let st = par_items(&its, Some(bridge::rt::hang_limit()), &|_| {}, &|it: &crate::p_values::Item, st: &mut Stats| {
            for (i, v) in &it.vals {
                let r = &(it.e.enc)(v, &[Sink::ToByteVecTwice])[0];
                st.states += 1;
                st.transitions += 2;
                if let (Out::Ok(b), Some(n)) = (&r.out, r.size) {
                    st.validated += 1;
                    if b[..n] != b[n..] {
                        st.violate(format!("C18 second-encoding-differs type={}", it.e.name), crate::p_values::key(it.e, *i), json!({"first": hex(&b[..n]), "second": hex(&b[n..])}));
                        return;
                    }
                    st.bump("encode-twice:identical");
                }
            }
        });
        run.stats.merge(st);
    }

    // (f) first-use order: for every row A of the table, a fresh process that uses A first and then
    // every row once, compared row by row with a fresh process that uses every row once without A
    // first. Whatever a first use leaves behind (statics, thread-locals, caches) must not change
    // what any later call does. Differential on purpose: a row that misbehaves whatever came before
    // it is another property's business, not an isolation failure.
    let first_rows: Vec<usize> = (0..u.entries.len())
        .filter(|i| match &run.only {
            None => true,
            Some(k) => *k == format!("first:{}", u.entries[*i].name),
        })
        .collect();
    if !first_rows.is_empty() {
        let total_rows = u.entries.len();
        let run_child = |arg: String| -> Option<Vec<String>> {
            let mut ch = std::process::Command::new(&me)
                .arg("C18-first")
                .arg(arg)
                .stdout(std::process::Stdio::piped())
                .stderr(std::process::Stdio::null())
                .spawn()
                .expect("spawn");
            // read while waiting (the pipe of a chatty child must not fill up)
            use std::io::Read;
            let mut so = ch.stdout.take().expect("stdout");
            let h = std::thread::spawn(move || {
                let mut s = String::new();
                let _ = so.read_to_string(&mut s);
                s
            });
            bridge::rt::wait_with_timeout(&mut ch, std::time::Duration::from_secs(300))?;
            let out = h.join().unwrap_or_default();
            if !out.lines().any(|l| l.starts_with("ROWS\t")) {
                return Some(vec![format!("DIED\t{}", out.chars().rev().take(200).collect::<String>().chars().rev().collect::<String>())]);
            }
            Some(out.lines().filter(|l| l.starts_with("ROW\t")).map(|l| l.to_string()).collect())
        };
        let Some(baseline) = run_child(usize::MAX.to_string()) else {
            eprintln!("MACHINERY: the first-use baseline process did not finish");
            return 2;
        };
        if baseline.len() != total_rows {
            // the table cannot be walked even once in a fresh process: nothing to compare with
            run.stats.violate("C18 first-use-order: a fresh process that uses every type once dies".into(), "first:baseline".into(), json!({"output": baseline.first()}));
        } else {
            let st = par_items(&first_rows, Some(bridge::rt::hang_limit()), &|_| {}, &|i: &usize, st: &mut Stats| {
                let name = &u.entries[*i].name;
                let Some(rows) = run_child(i.to_string()) else {
                    st.violate(format!("C18 first-use-order process does not terminate first={name}"), format!("first:{name}"), json!({}));
                    return;
                };
                st.states += 1;
                st.transitions += total_rows as u64;
                st.validated += total_rows as u64;
                if rows.len() != total_rows {
                    st.violate("C18 first-use-order: the process dies when a type is used before the others".into(), format!("first:{name}"), json!({"first_used_type": name, "output": rows.first()}));
                    return;
                }
                let differing: Vec<(&String, &String)> = rows.iter().zip(&baseline).filter(|(a, b)| a != b).collect();
                if let Some((got, base)) = differing.first() {
                    let later = got.split('\t').nth(1).unwrap_or("?");
                    st.violate(
                        format!("C18 first-use-order: calls on {later} behave differently after another type was used first"),
                        format!("first:{name}"),
                        json!({"first_used_type": name, "later_type": later, "after_that_first_use": got.split('\t').nth(2), "without_it": base.split('\t').nth(2), "rows_affected_in_this_process": differing.len()}),
                    );
                    return;
                }
                st.bump("first-use-order:later-calls-unchanged");
                st.nontrivial += 1;
            });
            run.stats.merge(st);
        }
    }

    // (d) supplementary, SAMPLED (not exhaustive): real threads, free-running, first use of every
    // type under contention, each sample in a fresh process
    if run.only.is_none() {
        let samples: Vec<usize> = (0..if thorough { 2000 } else { 200 }).collect();
        let st = par_items(&samples, Some(bridge::rt::hang_limit()), &|_| {}, &|i: &usize, st: &mut Stats| {
            let seqs = ["0,1,4,7", "1,0,7,4", "4,7,0,1,2,6", "7,0", "0,8,7"];
            let seq = seqs[i % seqs.len()];
            let mut ch = std::process::Command::new(&me)
                .arg("C18-race")
                .arg(seq)
                .arg("8")
                .stdout(std::process::Stdio::piped())
                .stderr(std::process::Stdio::null())
                .spawn()
                .expect("spawn");
            if bridge::rt::wait_with_timeout(&mut ch, std::time::Duration::from_secs(120)).is_none() {
                st.violate("C18 free-running threads: process does not terminate".into(), format!("race:{seq}"), json!({}));
                return;
            }
            let out = ch.wait_with_output().expect("output");
            st.add("free_running_samples(supplementary, sampled)", 1);
            for l in String::from_utf8_lossy(&out.stdout).lines() {
                let p: Vec<&str> = l.split(' ').collect();
                let ok = p.len() == 3 && p[1].parse::<usize>().map(|c| unhex(p[2]) == alone[c]).unwrap_or(false);
                if !ok {
                    st.violate(
                        format!("C18 free-running threads: call '{}' returned something else under contention", p.get(1).and_then(|c| c.parse::<usize>().ok()).map(|c| CALL_NAMES[c]).unwrap_or("?")),
                        format!("race:{seq}"),
                        json!({"line": l.chars().take(200).collect::<String>(), "sequence": seq, "threads": 8}),
                    );
                    return;
                }
            }
        });
        run.stats.merge(st);
    }

    // (a) schedules
    let mut machinery_note: Option<String> = None;
    let vsched = std::env::var("VSCHED_BIN").ok().filter(|s| !s.is_empty());
    let skip_a = run.only.as_ref().map(|k| !k.starts_with("sched:")).unwrap_or(false);
    match (vsched, skip_a) {
        (_, true) => {}
        (None, _) => run.caps_hit.push("schedule explorer binary not provided (VSCHED_BIN)".into()),
        (Some(bin), _) => {
            let parts = 16;
            let mut children = Vec::new();
            for i in 0..parts {
                let out = format!("/verif/.child-C18-sched-{i}.json");
                let _ = std::fs::remove_file(&out);
                let mut cmd = std::process::Command::new(&bin);
                cmd.arg("--tier").arg(tier).arg("--part").arg(i.to_string()).arg(parts.to_string()).arg("--out").arg(&out);
                if let Some(k) = &run.only {
                    cmd.arg("--only").arg(k);
                }
                cmd.stderr(std::process::Stdio::null());
                children.push((out, cmd.spawn().expect("spawn vsched")));
            }
            let mut schedules = 0u64;
            let mut harnesses = 0u64;
            let mut failing_parts: Vec<(usize, serde_json::Value)> = Vec::new();
            for (pi, (out, mut ch)) in children.into_iter().enumerate() {
                let limit = std::time::Duration::from_secs(if thorough { 4 * 3600 } else { 20 * 60 });
                let Some(status) = bridge::rt::wait_with_timeout(&mut ch, limit) else {
                    eprintln!("MACHINERY: schedule explorer did not finish within {limit:?}");
                    return 2;
                };
                if !status.success() {
                    eprintln!("MACHINERY: schedule explorer died: {status}");
                    return 2;
                }
                let v: serde_json::Value = serde_json::from_str(&std::fs::read_to_string(&out).expect("vsched summary")).expect("json");
                let _ = std::fs::remove_file(&out);
                schedules += v["schedules"].as_u64().unwrap_or(0);
                harnesses += v["harnesses"].as_u64().unwrap_or(0);
                for c in v["capped"].as_array().cloned().unwrap_or_default() {
                    run.caps_hit.push(format!("schedule cap {} reached in harness {}", v["cap"], c));
                }
                if v["violations"].as_array().map(|a| !a.is_empty()).unwrap_or(false) {
                    failing_parts.push((pi, v["violations"].clone()));
                }
                if let Some(a) = v["per_harness"].as_array() {
                    if let Some(h) = a.iter().max_by_key(|h| h["schedules"].as_u64().unwrap_or(0)) {
                        if run.stats.samples.len() < 5 {
                            run.stats.sample(json!({"schedule_harness": h["harness"], "schedules_explored": h["schedules"]}));
                        }
                    }
                }
            }
            // a failure is believed only if the same part, replayed in two fresh processes, gives
            // identical observations both times (the explorer must own every choice)
            for (pi, first) in failing_parts {
                let mut replays = Vec::new();
                for r in 0..2 {
                    let out = format!("/verif/.child-C18-replay-{pi}-{r}.json");
                    let _ = std::fs::remove_file(&out);
                    let mut cmd = std::process::Command::new(&bin);
                    cmd.arg("--tier").arg(tier).arg("--part").arg(pi.to_string()).arg(parts.to_string()).arg("--out").arg(&out);
                    if let Some(k) = &run.only {
                        cmd.arg("--only").arg(k);
                    }
                    cmd.stderr(std::process::Stdio::null());
                    let mut ch = cmd.spawn().expect("spawn vsched replay");
                    if bridge::rt::wait_with_timeout(&mut ch, std::time::Duration::from_secs(4 * 3600)).is_none() {
                        eprintln!("MACHINERY: schedule replay did not finish");
                        return 2;
                    }
                    let v: serde_json::Value = serde_json::from_str(&std::fs::read_to_string(&out).unwrap_or_default()).unwrap_or(json!({}));
                    let _ = std::fs::remove_file(&out);
                    replays.push(v["violations"].clone());
                }
                if replays[0] != replays[1] || replays[0] != first {
                    machinery_note = Some(format!("schedule failures of part {pi} did not reproduce identically in two fresh processes (uncontrolled nondeterminism in the harness): first={first} replay1={} replay2={}", replays[0], replays[1]));
                    continue;
                }
                for x in first.as_array().cloned().unwrap_or_default() {
                    run.stats.violate(x["fingerprint"].as_str().unwrap_or("C18 interleaving").to_string(), x["key"].as_str().unwrap_or("").to_string(), x["detail"].clone());
                }
            }
            run.stats.states += schedules;
            run.stats.transitions += schedules * 2;
            run.stats.validated += schedules * 2;
            run.stats.nontrivial += schedules;
            run.stats.add("schedules_explored", schedules);
            run.stats.add("schedule_harnesses", harnesses);
        }
    }
    if let Some(mut ch) = race_child {
        let limit = std::time::Duration::from_secs(if thorough { 3600 } else { 900 });
        if bridge::rt::wait_with_timeout(&mut ch, limit).is_none() {
            eprintln!("MACHINERY: the Miri data-race run did not finish within {limit:?}");
            return 2;
        }
        let log = std::fs::read_to_string(race_log).unwrap_or_default();
        let _ = std::fs::remove_file(race_log);
        let ok = log.lines().filter(|l| l.starts_with("RACE-OK")).count() as u64;
        run.stats.add("miri_data_race_runs_clean(supplementary, one schedule per seed)", ok);
        let excerpt = |pat: &str| -> String {
            let i = log.find(pat).unwrap_or(0);
            log[i..].chars().take(600).collect()
        };
        if let Some(l) = log.lines().find(|l| l.starts_with("RACE-DIFF")) {
            run.stats.violate("C18 threads under Miri: a call returned something else than alone".into(), "miri-race".into(), json!({"line": l.chars().take(400).collect::<String>()}));
        } else if log.contains("Undefined Behavior") {
            let kind = if log.contains("Data race detected") { "data race" } else { "undefined behaviour" };
            run.stats.violate(format!("C18 threads under Miri: {kind} between concurrent calls"), "miri-race".into(), json!({"miri": excerpt("Undefined Behavior")}));
        } else if log.contains("thread panicked") || log.contains("panicked at") {
            run.stats.violate("C18 threads under Miri: a call panicked under contention".into(), "miri-race".into(), json!({"miri": excerpt("panicked")}));
        } else if ok != race_seeds {
            machinery_note = Some(format!("Miri data-race run ended with {ok} of {race_seeds} clean seeds and no diagnosis: {}", log.chars().rev().take(400).collect::<String>().chars().rev().collect::<String>()));
        }
    } else if run.only.is_none() {
        run.caps_hit.push("Miri data-race run not performed (VRACE_DIR not provided)".into());
    }
    run.stats.add("call_sequences_in_fresh_processes", seqs.len() as u64);
    run.rule = format!("(a) every interleaving (shuttle DFS, no preemption bound) of 2{} threads each doing one of 7 calls, under three hook filters (string/ref tables; record open/finish and context creation; field writes/reads), metadata statics initialised under contention in every schedule; (b) all {} sequences of depth <= {} over 11 calls (one fails half-way through a record, one fills the reference table, one cites a reference that was never introduced), each in a fresh process; (c) every value of the universe encoded twice from the same instance; (f) for every row of the type table a fresh process that uses that row first and then every row once, compared row by row with a fresh process that uses every row once (all ordered pairs of first-used and later type). Oracle: every call returns what the same call returns alone in a fresh process. Non-trivial = schedules with >= 2 threads, sequences with >= 2 calls.", if thorough { " and 3" } else { "" }, seqs.len(), depth);
    run.bounds = json!({"threads": if thorough { 3 } else { 2 }, "sequence_depth": depth});
    run.extra.insert("supplementary_sampled_part".into(), json!("(d) 200 / 2000 fresh processes, 8 free-running OS threads each released by a barrier; this part SAMPLES schedules of the operating system and is not part of the exhaustive claim; (e) 4 / 48 Miri runs (one deterministic schedule per seed) of 3 / 4 real threads doing first-use and steady-state calls, with Miri's data-race detector as the monitor for unsynchronised accesses that the cooperative scheduler of (a) cannot see - also sampled"));
    run.assumptions = vec![
        "interleavings are at the granularity of scheduling points: shuttle lazy_static accesses of derived metadata, desert_verif hook points, spawn/join".into(),
        "std::sync::Once under lazy_static is replaced by shuttle's model for derived metadata (trusted); EMPTY_ADT_METADATA keeps the real lazy_static".into(),
    ];
    let code = run.finish();
    if let Some(n) = machinery_note {
        eprintln!("MACHINERY: {n}");
        return if code == 0 { 2 } else { code };
    }
    code
}
