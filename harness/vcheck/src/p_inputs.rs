//! Operation sequences on the three `BinaryInput` implementations (C15 sources, C05 low-level
//! readers): every sequence of reads / skips with boundary and extreme counts on every short input;
//! the implementations must agree step by step with each other and with a reference cursor, and
//! must reject every length that does not fit instead of overflowing.
use bridge::err::guarded;
use bridge::rt::{hex, par_items, Stats};
use bridge::Out;
use desert::adt::{AdtDeserializer, AdtMetadata};
use desert::{BinaryDeserializer, BinaryInput, DeserializationContext, Evolution, OwnedInput, SliceInput};
use std::cell::RefCell;
use refmodel::tamper::{self, ALPHABET};
use serde_json::json;

#[derive(Clone, Copy, Debug, PartialEq, Eq)]
enum Cnt {
    N0,
    N1,
    N2,
    Rest,
    RestPlus1,
    Big31,
    MaxMinusPos,
    Max,
}

const CNTS: [Cnt; 8] = [Cnt::N0, Cnt::N1, Cnt::N2, Cnt::Rest, Cnt::RestPlus1, Cnt::Big31, Cnt::MaxMinusPos, Cnt::Max];

#[derive(Clone, Copy, Debug, PartialEq, Eq)]
enum Op {
    U8,
    U16,
    U64,
    VarU32,
    VarI32,
    Bytes(Cnt),
    Skip(Cnt),
    Compressed,
}

fn ops() -> Vec<Op> {
    let mut v = vec![Op::U8, Op::U16, Op::U64, Op::VarU32, Op::VarI32];
    for c in CNTS {
        v.push(Op::Bytes(c));
    }
    for c in CNTS {
        v.push(Op::Skip(c));
    }
    v.push(Op::Compressed);
    v
}

fn count(c: Cnt, pos: usize, len: usize) -> usize {
    let rest = len - pos;
    match c {
        Cnt::N0 => 0,
        Cnt::N1 => 1,
        Cnt::N2 => 2,
        Cnt::Rest => rest,
        Cnt::RestPlus1 => rest + 1,
        Cnt::Big31 => 1usize << 31,
        Cnt::MaxMinusPos => usize::MAX - pos,
        Cnt::Max => usize::MAX,
    }
}

/// what one step did: a rendering of the value (or "Err") - comparable across implementations
fn step<I: BinaryInput>(i: &mut I, op: Op, pos: usize, len: usize) -> String {
    match op {
        Op::U8 => i.read_u8().map(|v| format!("{v}")).unwrap_or_else(|_| "Err".into()),
        Op::U16 => i.read_u16().map(|v| format!("{v}")).unwrap_or_else(|_| "Err".into()),
        Op::U64 => i.read_u64().map(|v| format!("{v}")).unwrap_or_else(|_| "Err".into()),
        Op::VarU32 => i.read_var_u32().map(|v| format!("{v}")).unwrap_or_else(|_| "Err".into()),
        Op::VarI32 => i.read_var_i32().map(|v| format!("{v}")).unwrap_or_else(|_| "Err".into()),
        Op::Bytes(c) => i.read_bytes(count(c, pos, len)).map(|b| hex(b)).unwrap_or_else(|_| "Err".into()),
        Op::Skip(c) => i.skip(count(c, pos, len)).map(|_| "ok".to_string()).unwrap_or_else(|_| "Err".into()),
        Op::Compressed => i.read_compressed().map(|b| format!("z{}", hex(&b))).unwrap_or_else(|_| "Err".into()),
    }
}

/// reference cursor: what each operation must do to the position, and its value where defined
fn ref_step(d: &[u8], pos: &mut usize, op: Op) -> Option<String> {
    let len = d.len();
    let fixed = |n: usize, pos: &mut usize| -> Option<&[u8]> {
        if n > len - *pos {
            None
        } else {
            let r = &d[*pos..*pos + n];
            *pos += n;
            Some(r)
        }
    };
    let varu = |pos: &mut usize| -> Option<u32> {
        let mut r = 0u32;
        for k in 0..5 {
            if *pos >= len {
                return None;
            }
            let b = d[*pos];
            *pos += 1;
            if k == 4 {
                return Some(r | (((b & 0x0f) as u32) << 28));
            }
            r |= ((b & 0x7f) as u32) << (7 * k);
            if b & 0x80 == 0 {
                return Some(r);
            }
        }
        None
    };
    match op {
        Op::U8 => fixed(1, pos).map(|b| format!("{}", b[0])),
        Op::U16 => fixed(2, pos).map(|b| format!("{}", u16::from_be_bytes([b[0], b[1]]))),
        Op::U64 => fixed(8, pos).map(|b| format!("{}", u64::from_be_bytes(b.try_into().unwrap()))),
        Op::VarU32 => varu(pos).map(|v| format!("{v}")),
        Op::VarI32 => varu(pos).map(|v| format!("{}", ((v >> 1) as i32) ^ -((v & 1) as i32))),
        Op::Bytes(c) => {
            let n = count(c, *pos, len);
            fixed(n, pos).map(hex)
        }
        Op::Skip(c) => {
            let n = count(c, *pos, len);
            fixed(n, pos).map(|_| "ok".to_string())
        }
        Op::Compressed => {
            // cursor only: two varints, then the compressed bytes; the inflated value is compared
            // across the implementations, not with this reference
            let _ulen = varu(pos)?;
            let zlen = varu(pos)? as usize;
            fixed(zlen, pos).map(|_| "z?".to_string())
        }
    }
}

fn remaining<I: BinaryInput>(i: &mut I) -> usize {
    let mut n = 0;
    while i.read_u8().is_ok() {
        n += 1;
    }
    n
}

// The context *inside a chunk*: the input is the content of chunk 1 of an evolved record
// (`{ pre: u16 } + FieldAdded("g")`), so the region the operations run in starts at a non-zero
// offset of the underlying buffer and ends before its end (two more bytes follow the record). A
// field codec runs the sequence on the context it is handed. Everything observable must be what a
// `SliceInput` over the chunk's bytes alone shows.
thread_local! {
    static PROBE: RefCell<Option<(Vec<u8>, Vec<Op>, Vec<String>, usize)>> = const { RefCell::new(None) };
}

struct OpsProbe;

impl BinaryDeserializer for OpsProbe {
    fn deserialize(ctx: &mut DeserializationContext<'_>) -> desert::Result<Self> {
        let (input, seq) = PROBE.with(|p| p.borrow().as_ref().map(|x| (x.0.clone(), x.1.clone())).expect("probe"));
        let mut outs = Vec::new();
        let mut rp = 0usize;
        for op in &seq {
            let before = rp;
            let _ = ref_step(&input, &mut rp, *op);
            outs.push(step(ctx, *op, before, input.len()));
        }
        let rest = remaining(ctx);
        PROBE.with(|p| {
            if let Some(x) = p.borrow_mut().as_mut() {
                x.2 = outs;
                x.3 = rest;
            }
        });
        Ok(OpsProbe)
    }
}

fn run_in_chunk(input: &[u8], seq: &[Op]) -> desert::Result<(Vec<String>, usize)> {
    let mut stream = vec![1u8];
    stream.extend(refmodel::wire::vari(2));
    stream.extend(refmodel::wire::vari(input.len() as i32));
    stream.extend([0xaa, 0xbb]);
    stream.extend_from_slice(input);
    stream.extend([0x77, 0x77]);
    PROBE.with(|p| *p.borrow_mut() = Some((input.to_vec(), seq.to_vec(), Vec::new(), usize::MAX)));
    let md = AdtMetadata::new(vec![Evolution::InitialVersion, Evolution::FieldAdded { name: "g".into() }]);
    let mut ctx = DeserializationContext::new(&stream);
    let v = ctx.read_u8()?;
    let mut d = AdtDeserializer::new(&md, &mut ctx, v)?;
    let _pre: u16 = d.read_field("pre", None)?;
    let _: OpsProbe = d.read_field("g", None)?;
    let (outs, rest) = PROBE.with(|p| p.borrow_mut().take().map(|x| (x.2, x.3)).expect("probe"));
    Ok((outs, rest))
}

fn run_seq(prop: &str, input: &[u8], seq: &[Op], st: &mut Stats) {
    st.states += 1;
    let key = format!("ops:{}|{:?}", hex(input), seq);
    // each implementation runs the whole sequence under one unwind guard
    let run_impl = |which: usize| -> (Out<(Vec<String>, usize)>, usize) {
        guarded(|| {
            let mut outs = Vec::new();
            let mut rp = 0usize;
            let rest;
            match which {
                0 => {
                    let mut i = SliceInput::new(input);
                    for op in seq {
                        let before = rp;
                        let _ = ref_step(input, &mut rp, *op);
                        outs.push(step(&mut i, *op, before, input.len()));
                    }
                    rest = remaining(&mut i);
                }
                1 => {
                    let mut i = OwnedInput::new(input.to_vec());
                    for op in seq {
                        let before = rp;
                        let _ = ref_step(input, &mut rp, *op);
                        outs.push(step(&mut i, *op, before, input.len()));
                    }
                    rest = remaining(&mut i);
                }
                2 => {
                    let mut i = DeserializationContext::new(input);
                    for op in seq {
                        let before = rp;
                        let _ = ref_step(input, &mut rp, *op);
                        outs.push(step(&mut i, *op, before, input.len()));
                    }
                    rest = remaining(&mut i);
                }
                _ => return run_in_chunk(input, seq),
            }
            Ok((outs, rest))
        })
    };
    // (an empty chunk has no region to speak of: three implementations only)
    let n_impl = if input.is_empty() { 3 } else { 4 };
    let results: Vec<(Out<(Vec<String>, usize)>, usize)> = (0..n_impl).map(run_impl).collect();
    st.transitions += (n_impl * seq.len()) as u64;
    let names = ["SliceInput", "OwnedInput", "DeserializationContext", "DeserializationContext(inside a chunk)"];
    // reference
    let mut rp = 0usize;
    let refs: Vec<Option<String>> = seq.iter().map(|op| ref_step(input, &mut rp, *op)).collect();
    for (w, (r, max_alloc)) in results.iter().enumerate() {
        match r {
            Out::Panic(p) => {
                let site = p.rsplit_once(" @ ").map(|x| x.1).unwrap_or("?");
                st.violate(
                    format!("{prop} low-level-reader panic impl={} at={site}", names[w]),
                    key.clone(),
                    json!({"input": hex(input), "ops": format!("{seq:?}"), "panic": p}),
                );
                return;
            }
            Out::Err(e) => {
                // only the in-chunk run has a fallible frame around it, and the frame is valid
                if prop == "C15" {
                    st.violate(
                        format!("C15 source impl={} the record around the chunk is rejected", names[w]),
                        key.clone(),
                        json!({"input": hex(input), "ops": format!("{seq:?}"), "error": format!("{e:?}")}),
                    );
                    return;
                }
            }
            Out::Ok((outs, rest)) => {
                if *max_alloc > 64 * 1024 && prop == "C05" {
                    st.violate(
                        format!("{prop} low-level-reader allocation impl={}", names[w]),
                        key.clone(),
                        json!({"input": hex(input), "ops": format!("{seq:?}"), "largest_request": max_alloc}),
                    );
                    return;
                }
                if prop == "C15" {
                    st.validated += 1;
                    // the reference cursor defines successful reads; what a *failed* read leaves
                    // behind is not specified, so the comparison with it stops at the first failure
                    // (the three implementations must still agree with each other after it)
                    // (an implementation may also be stricter than the reference - e.g. reject an
                    // over-long varint - as long as all three agree, which is checked below)
                    let defined = refs
                        .iter()
                        .zip(outs.iter())
                        .position(|(r, o)| r.is_none() || o == "Err")
                        .unwrap_or(refs.len());
                    for (k, (got, want)) in outs.iter().zip(&refs).enumerate().take(defined + 1) {
                        let ok = match want {
                            // reading something the bytes do not contain
                            None => got == "Err",
                            Some(v) if v == "z?" => true,
                            Some(v) => got == v || got == "Err",
                        };
                        if !ok {
                            st.violate(
                                format!("C15 source impl={} op={:?} differs-from-reference-cursor", names[w], seq[k]),
                                key.clone(),
                                json!({"input": hex(input), "ops": format!("{seq:?}"), "step": k, "got": got, "reference": want}),
                            );
                            return;
                        }
                    }
                    if defined == refs.len() && *rest != input.len() - rp && !seq.contains(&Op::Compressed) {
                        st.violate(
                            format!("C15 source impl={} end-of-input-at-different-point", names[w]),
                            key.clone(),
                            json!({"input": hex(input), "ops": format!("{seq:?}"), "unread": rest, "reference_unread": input.len() - rp}),
                        );
                        return;
                    }
                }
            }
        }
    }
    if prop == "C15" {
        let a = &results[0].0;
        for w in 1..results.len() {
            if results[w].0 != *a {
                st.violate(
                    format!("C15 sources-disagree {} vs {}", names[0], names[w]),
                    key.clone(),
                    json!({"input": hex(input), "ops": format!("{seq:?}"), names[0]: format!("{a:?}"), names[w]: format!("{:?}", results[w].0)}),
                );
                return;
            }
        }
        st.bump("sources-agree-step-by-step");
        st.add("source_agreement_sequences", 1);
    } else {
        st.bump("low-level-readers:no-panic");
    }
    st.nontrivial += 1;
}

struct Item {
    first: Op,
    depth: usize,
}

/// explore all sequences up to `depth`; statistics are merged by the caller
pub fn explore(prop: &'static str, depth: usize, only: &Option<String>) -> Stats {
    let all = ops();
    let mut inputs: Vec<Vec<u8>> = Vec::new();
    for len in 0..=3 {
        tamper::strings_with_prefix(&ALPHABET, &[], len, &mut |s| inputs.push(s.to_vec()));
    }
    // a valid compressed frame and a frame with a huge claimed length, so that read_compressed
    // also succeeds / is asked for absurd amounts
    inputs.push(vec![0x03, 0x05, 0x4b, 0x4c, 0x4a, 0x06, 0x00, 0xee]);
    inputs.push(vec![0xff, 0xff, 0xff, 0xff, 0x0f, 0x02, 0x03, 0x00]);
    if let Some(k) = only {
        if let Some(rest) = k.strip_prefix("ops:") {
            // replay: "ops:<hex>|[Op, ...]" - re-run every sequence on that input
            let h = rest.split('|').next().unwrap_or("");
            inputs = vec![bridge::rt::unhex(h)];
        } else {
            return Stats::default();
        }
    }
    let mut items = Vec::new();
    for d in 1..=depth {
        for op in &all {
            items.push(Item { first: *op, depth: d });
        }
    }
    par_items(&items, Some(bridge::rt::hang_limit()), &|it: &Item| {
        println!("  fingerprint: {prop} low-level reader does not return: sequences starting with {:?}", it.first);
    }, &|it: &Item, st: &mut Stats| {
        let n = all.len();
        let mut idx = vec![0usize; it.depth];
        loop {
            let mut seq: Vec<Op> = vec![it.first];
            seq.extend(idx[1..].iter().map(|&i| all[i]));
            for input in &inputs {
                run_seq(prop, input, &seq, st);
            }
            let mut i = it.depth;
            loop {
                if i == 1 {
                    return;
                }
                i -= 1;
                idx[i] += 1;
                if idx[i] < n {
                    break;
                }
                idx[i] = 0;
            }
        }
    })
}


// ------------------------------------------------------------------------------------------------
// Writer side: every primitive of `BinaryOutput`, called on the `SerializationContext` a field
// codec is handed, must land where the field's bytes go - at top level, in a plain record, and in
// chunk 0 / chunk 1 of an evolved record (where the context writes into a chunk buffer) - and be
// the same bytes whatever the sink.

#[derive(Clone, Copy, Debug, PartialEq)]
enum WOp {
    U8,
    I8,
    U16,
    I16,
    U32,
    I32,
    U64,
    I64,
    U128,
    I128,
    F32,
    F64,
    Bytes0,
    Bytes3,
    VarU1,
    VarU5,
    VarINeg,
    Compressed,
}

const WOPS: [WOp; 18] = [
    WOp::U8, WOp::I8, WOp::U16, WOp::I16, WOp::U32, WOp::I32, WOp::U64, WOp::I64, WOp::U128, WOp::I128, WOp::F32, WOp::F64,
    WOp::Bytes0, WOp::Bytes3, WOp::VarU1, WOp::VarU5, WOp::VarINeg, WOp::Compressed,
];

fn w_apply<O: desert::BinaryOutput>(op: WOp, o: &mut O) -> desert::Result<()> {
    match op {
        WOp::U8 => o.write_u8(0x81),
        WOp::I8 => o.write_i8(-2),
        WOp::U16 => o.write_u16(0x8102),
        WOp::I16 => o.write_i16(-259),
        WOp::U32 => o.write_u32(0x8102_0304),
        WOp::I32 => o.write_i32(-16_909_061),
        WOp::U64 => o.write_u64(0x8102_0304_0506_0708),
        WOp::I64 => o.write_i64(-72_623_859_790_382_857),
        WOp::U128 => o.write_u128(0x8102_0304_0506_0708_090a_0b0c_0d0e_0f10),
        WOp::I128 => o.write_i128(-2),
        WOp::F32 => o.write_f32(-1.5),
        WOp::F64 => o.write_f64(f64::MIN_POSITIVE),
        WOp::Bytes0 => o.write_bytes(&[]),
        WOp::Bytes3 => o.write_bytes(&[0xca, 0xfe, 0x00]),
        WOp::VarU1 => o.write_var_u32(0x7f),
        WOp::VarU5 => o.write_var_u32(u32::MAX),
        WOp::VarINeg => o.write_var_i32(-300),
        WOp::Compressed => return o.write_compressed(b"aaaaaaaaaaaaaaaaaaaaaaaab", Default::default()),
    }
    Ok(())
}

/// what the format prescribes for each primitive (the compressed frame: both lengths, then the
/// sink-independent DEFLATE bytes, taken from the plain `Vec` sink and checked by C16)
fn w_reference(op: WOp) -> Vec<u8> {
    use refmodel::wire::{vari, varu};
    match op {
        WOp::U8 => vec![0x81],
        WOp::I8 => vec![0xfe],
        WOp::U16 => 0x8102u16.to_be_bytes().to_vec(),
        WOp::I16 => (-259i16).to_be_bytes().to_vec(),
        WOp::U32 => 0x8102_0304u32.to_be_bytes().to_vec(),
        WOp::I32 => (-16_909_061i32).to_be_bytes().to_vec(),
        WOp::U64 => 0x8102_0304_0506_0708u64.to_be_bytes().to_vec(),
        WOp::I64 => (-72_623_859_790_382_857i64).to_be_bytes().to_vec(),
        WOp::U128 => 0x8102_0304_0506_0708_090a_0b0c_0d0e_0f10u128.to_be_bytes().to_vec(),
        WOp::I128 => (-2i128).to_be_bytes().to_vec(),
        WOp::F32 => (-1.5f32).to_bits().to_be_bytes().to_vec(),
        WOp::F64 => f64::MIN_POSITIVE.to_bits().to_be_bytes().to_vec(),
        WOp::Bytes0 => vec![],
        WOp::Bytes3 => vec![0xca, 0xfe, 0x00],
        WOp::VarU1 => varu(0x7f),
        WOp::VarU5 => varu(u32::MAX),
        WOp::VarINeg => vari(-300),
        WOp::Compressed => {
            let mut v: Vec<u8> = Vec::new();
            let _ = w_apply(WOp::Compressed, &mut v);
            v
        }
    }
}

struct WriteScript(Vec<WOp>);

impl desert::BinarySerializer for WriteScript {
    fn serialize<O: desert::BinaryOutput>(&self, ctx: &mut desert::SerializationContext<O>) -> desert::Result<()> {
        for op in &self.0 {
            w_apply(*op, ctx)?;
        }
        Ok(())
    }
}

/// all scripts up to `depth` over the 18 primitives x 4 placements x 3 sinks
pub fn explore_writes(depth: usize, only: &Option<String>) -> Stats {
    use bridge::tables::{encode_at_sinks, frame_at, GRAPH_PLACES};
    let mut scripts: Vec<Vec<WOp>> = vec![vec![]];
    let mut frontier: Vec<Vec<WOp>> = vec![vec![]];
    for _ in 0..depth {
        let mut next = Vec::new();
        for p in &frontier {
            for o in WOPS {
                let mut q = p.clone();
                q.push(o);
                next.push(q);
            }
        }
        scripts.extend(next.iter().cloned());
        frontier = next;
    }
    if let Some(k) = only {
        match k.strip_prefix("writes:") {
            Some(l) => scripts.retain(|s| format!("{s:?}") == l),
            None => return Stats::default(),
        }
    }
    par_items(&scripts, Some(bridge::rt::hang_limit()), &|_| {}, &|script: &Vec<WOp>, st: &mut Stats| {
        let key = format!("writes:{script:?}");
        // a compressed frame reference that failed to build would make every comparison void
        let inner: Vec<u8> = script.iter().flat_map(|o| w_reference(*o)).collect();
        // the plain Vec as a BinaryOutput
        let mut direct: Vec<u8> = Vec::new();
        let (d, _) = guarded(|| {
            for o in script {
                w_apply(*o, &mut direct)?;
            }
            Ok(())
        });
        st.states += 1;
        st.validated += 1;
        if !d.is_ok() || direct != inner {
            st.violate("C15 output-primitives on a plain Vec differ from the format".into(), key.clone(), json!({"script": format!("{script:?}"), "bytes": hex(&direct), "prescribed": hex(&inner)}));
            return;
        }
        for place in GRAPH_PLACES {
            let want = frame_at(&inner, place);
            let (v, b, z) = encode_at_sinks(&WriteScript(script.clone()), place);
            st.states += 1;
            st.transitions += 3;
            st.validated += 3;
            let problems: Vec<String> = [
                (!matches!(&v, Out::Ok(x) if *x == want)).then(|| format!("Vec: {}", match &v { Out::Ok(x) => hex(x), o => o.class() })),
                (!matches!(&b, Out::Ok(x) if *x == want)).then(|| format!("BytesMut: {}", match &b { Out::Ok(x) => hex(x), o => o.class() })),
                (!matches!(&z, Out::Ok(n) if *n == want.len())).then(|| format!("SizeCalculator: {}", match &z { Out::Ok(n) => n.to_string(), o => o.class() })),
            ]
            .into_iter()
            .flatten()
            .collect();
            if !problems.is_empty() {
                let first_op = script.iter().find(|o| true).map(|o| format!("{o:?}")).unwrap_or_default();
                let _ = first_op;
                st.violate(
                    format!("C15 output-primitives written by a field codec are misplaced placement={place:?} sink={}", problems[0].split(':').next().unwrap_or("?")),
                    key.clone(),
                    json!({"script": format!("{script:?}"), "placement": format!("{place:?}"), "prescribed": hex(&want), "got": problems}),
                );
                return;
            }
            st.bump("output-primitives:placed-as-prescribed");
            st.nontrivial += 1;
        }
    })
}
