//! Operation sequences on the three `BinaryInput` implementations (C15 sources, C05 low-level
//! readers): every sequence of reads / skips with boundary and extreme counts on every short input;
//! the implementations must agree step by step with each other and with a reference cursor, and
//! must reject every length that does not fit instead of overflowing.
use bridge::err::guarded;
use bridge::rt::{hex, par_items, Stats};
use bridge::Out;
use desert::{BinaryInput, DeserializationContext, OwnedInput, SliceInput};
use refmodel::tamper::{self, ALPHABET};
use serde_json::json;

#[derive(Clone, Copy, Debug, PartialEq, Eq)]
enum Cnt {
    N0,
    N1,
    N2,
    Rest,
    RestPlus1,
    Big31,
    MaxMinusPos,
    Max,
}

const CNTS: [Cnt; 8] = [Cnt::N0, Cnt::N1, Cnt::N2, Cnt::Rest, Cnt::RestPlus1, Cnt::Big31, Cnt::MaxMinusPos, Cnt::Max];

#[derive(Clone, Copy, Debug, PartialEq, Eq)]
enum Op {
    U8,
    U16,
    U64,
    VarU32,
    VarI32,
    Bytes(Cnt),
    Skip(Cnt),
    Compressed,
}

fn ops() -> Vec<Op> {
    let mut v = vec![Op::U8, Op::U16, Op::U64, Op::VarU32, Op::VarI32];
    for c in CNTS {
        v.push(Op::Bytes(c));
    }
    for c in CNTS {
        v.push(Op::Skip(c));
    }
    v.push(Op::Compressed);
    v
}

fn count(c: Cnt, pos: usize, len: usize) -> usize {
    let rest = len - pos;
    match c {
        Cnt::N0 => 0,
        Cnt::N1 => 1,
        Cnt::N2 => 2,
        Cnt::Rest => rest,
        Cnt::RestPlus1 => rest + 1,
        Cnt::Big31 => 1usize << 31,
        Cnt::MaxMinusPos => usize::MAX - pos,
        Cnt::Max => usize::MAX,
    }
}

/// what one step did: a rendering of the value (or "Err") - comparable across implementations
fn step<I: BinaryInput>(i: &mut I, op: Op, pos: usize, len: usize) -> String {
    match op {
        Op::U8 => i.read_u8().map(|v| format!("{v}")).unwrap_or_else(|_| "Err".into()),
        Op::U16 => i.read_u16().map(|v| format!("{v}")).unwrap_or_else(|_| "Err".into()),
        Op::U64 => i.read_u64().map(|v| format!("{v}")).unwrap_or_else(|_| "Err".into()),
        Op::VarU32 => i.read_var_u32().map(|v| format!("{v}")).unwrap_or_else(|_| "Err".into()),
        Op::VarI32 => i.read_var_i32().map(|v| format!("{v}")).unwrap_or_else(|_| "Err".into()),
        Op::Bytes(c) => i.read_bytes(count(c, pos, len)).map(|b| hex(b)).unwrap_or_else(|_| "Err".into()),
        Op::Skip(c) => i.skip(count(c, pos, len)).map(|_| "ok".to_string()).unwrap_or_else(|_| "Err".into()),
        Op::Compressed => i.read_compressed().map(|b| format!("z{}", hex(&b))).unwrap_or_else(|_| "Err".into()),
    }
}

/// reference cursor: what each operation must do to the position, and its value where defined
fn ref_step(d: &[u8], pos: &mut usize, op: Op) -> Option<String> {
    let len = d.len();
    let fixed = |n: usize, pos: &mut usize| -> Option<&[u8]> {
        if n > len - *pos {
            None
        } else {
            let r = &d[*pos..*pos + n];
            *pos += n;
            Some(r)
        }
    };
    let varu = |pos: &mut usize| -> Option<u32> {
        let mut r = 0u32;
        for k in 0..5 {
            if *pos >= len {
                return None;
            }
            let b = d[*pos];
            *pos += 1;
            if k == 4 {
                return Some(r | (((b & 0x0f) as u32) << 28));
            }
            r |= ((b & 0x7f) as u32) << (7 * k);
            if b & 0x80 == 0 {
                return Some(r);
            }
        }
        None
    };
    match op {
        Op::U8 => fixed(1, pos).map(|b| format!("{}", b[0])),
        Op::U16 => fixed(2, pos).map(|b| format!("{}", u16::from_be_bytes([b[0], b[1]]))),
        Op::U64 => fixed(8, pos).map(|b| format!("{}", u64::from_be_bytes(b.try_into().unwrap()))),
        Op::VarU32 => varu(pos).map(|v| format!("{v}")),
        Op::VarI32 => varu(pos).map(|v| format!("{}", ((v >> 1) as i32) ^ -((v & 1) as i32))),
        Op::Bytes(c) => {
            let n = count(c, *pos, len);
            fixed(n, pos).map(hex)
        }
        Op::Skip(c) => {
            let n = count(c, *pos, len);
            fixed(n, pos).map(|_| "ok".to_string())
        }
        Op::Compressed => {
            // cursor only: two varints, then the compressed bytes; the inflated value is compared
            // across the implementations, not with this reference
            let _ulen = varu(pos)?;
            let zlen = varu(pos)? as usize;
            fixed(zlen, pos).map(|_| "z?".to_string())
        }
    }
}

fn remaining<I: BinaryInput>(i: &mut I) -> usize {
    let mut n = 0;
    while i.read_u8().is_ok() {
        n += 1;
    }
    n
}

fn run_seq(prop: &str, input: &[u8], seq: &[Op], st: &mut Stats) {
    st.states += 1;
    let key = format!("ops:{}|{:?}", hex(input), seq);
    // each implementation runs the whole sequence under one unwind guard
    let run_impl = |which: usize| -> (Out<(Vec<String>, usize)>, usize) {
        guarded(|| {
            let mut outs = Vec::new();
            let mut rp = 0usize;
            let rest;
            match which {
                0 => {
                    let mut i = SliceInput::new(input);
                    for op in seq {
                        let before = rp;
                        let _ = ref_step(input, &mut rp, *op);
                        outs.push(step(&mut i, *op, before, input.len()));
                    }
                    rest = remaining(&mut i);
                }
                1 => {
                    let mut i = OwnedInput::new(input.to_vec());
                    for op in seq {
                        let before = rp;
                        let _ = ref_step(input, &mut rp, *op);
                        outs.push(step(&mut i, *op, before, input.len()));
                    }
                    rest = remaining(&mut i);
                }
                _ => {
                    let mut i = DeserializationContext::new(input);
                    for op in seq {
                        let before = rp;
                        let _ = ref_step(input, &mut rp, *op);
                        outs.push(step(&mut i, *op, before, input.len()));
                    }
                    rest = remaining(&mut i);
                }
            }
            Ok((outs, rest))
        })
    };
    let results: Vec<(Out<(Vec<String>, usize)>, usize)> = (0..3).map(run_impl).collect();
    st.transitions += 3 * seq.len() as u64;
    let names = ["SliceInput", "OwnedInput", "DeserializationContext"];
    // reference
    let mut rp = 0usize;
    let refs: Vec<Option<String>> = seq.iter().map(|op| ref_step(input, &mut rp, *op)).collect();
    for (w, (r, max_alloc)) in results.iter().enumerate() {
        match r {
            Out::Panic(p) => {
                let site = p.rsplit_once(" @ ").map(|x| x.1).unwrap_or("?");
                st.violate(
                    format!("{prop} low-level-reader panic impl={} at={site}", names[w]),
                    key.clone(),
                    json!({"input": hex(input), "ops": format!("{seq:?}"), "panic": p}),
                );
                return;
            }
            Out::Err(_) => unreachable!(),
            Out::Ok((outs, rest)) => {
                if *max_alloc > 64 * 1024 && prop == "C05" {
                    st.violate(
                        format!("{prop} low-level-reader allocation impl={}", names[w]),
                        key.clone(),
                        json!({"input": hex(input), "ops": format!("{seq:?}"), "largest_request": max_alloc}),
                    );
                    return;
                }
                if prop == "C15" {
                    st.validated += 1;
                    // the reference cursor defines successful reads; what a *failed* read leaves
                    // behind is not specified, so the comparison with it stops at the first failure
                    // (the three implementations must still agree with each other after it)
                    // (an implementation may also be stricter than the reference - e.g. reject an
                    // over-long varint - as long as all three agree, which is checked below)
                    let defined = refs
                        .iter()
                        .zip(outs.iter())
                        .position(|(r, o)| r.is_none() || o == "Err")
                        .unwrap_or(refs.len());
                    for (k, (got, want)) in outs.iter().zip(&refs).enumerate().take(defined + 1) {
                        let ok = match want {
                            // reading something the bytes do not contain
                            None => got == "Err",
                            Some(v) if v == "z?" => true,
                            Some(v) => got == v || got == "Err",
                        };
                        if !ok {
                            st.violate(
                                format!("C15 source impl={} op={:?} differs-from-reference-cursor", names[w], seq[k]),
                                key.clone(),
                                json!({"input": hex(input), "ops": format!("{seq:?}"), "step": k, "got": got, "reference": want}),
                            );
                            return;
                        }
                    }
                    if defined == refs.len() && *rest != input.len() - rp && !seq.contains(&Op::Compressed) {
                        st.violate(
                            format!("C15 source impl={} end-of-input-at-different-point", names[w]),
                            key.clone(),
                            json!({"input": hex(input), "ops": format!("{seq:?}"), "unread": rest, "reference_unread": input.len() - rp}),
                        );
                        return;
                    }
                }
            }
        }
    }
    if prop == "C15" {
        let a = &results[0].0;
        for w in 1..3 {
            if results[w].0 != *a {
                st.violate(
                    format!("C15 sources-disagree {} vs {}", names[0], names[w]),
                    key.clone(),
                    json!({"input": hex(input), "ops": format!("{seq:?}"), names[0]: format!("{a:?}"), names[w]: format!("{:?}", results[w].0)}),
                );
                return;
            }
        }
        st.bump("sources-agree-step-by-step");
        st.add("source_agreement_sequences", 1);
    } else {
        st.bump("low-level-readers:no-panic");
    }
    st.nontrivial += 1;
}

struct Item {
    first: Op,
    depth: usize,
}

/// explore all sequences up to `depth`; statistics are merged by the caller
pub fn explore(prop: &'static str, depth: usize, only: &Option<String>) -> Stats {
    let all = ops();
    let mut inputs: Vec<Vec<u8>> = Vec::new();
    for len in 0..=3 {
        tamper::strings_with_prefix(&ALPHABET, &[], len, &mut |s| inputs.push(s.to_vec()));
    }
    // a valid compressed frame and a frame with a huge claimed length, so that read_compressed
    // also succeeds / is asked for absurd amounts
    inputs.push(vec![0x03, 0x05, 0x4b, 0x4c, 0x4a, 0x06, 0x00, 0xee]);
    inputs.push(vec![0xff, 0xff, 0xff, 0xff, 0x0f, 0x02, 0x03, 0x00]);
    if let Some(k) = only {
        if let Some(rest) = k.strip_prefix("ops:") {
            // replay: "ops:<hex>|[Op, ...]" - re-run every sequence on that input
            let h = rest.split('|').next().unwrap_or("");
            inputs = vec![bridge::rt::unhex(h)];
        } else {
            return Stats::default();
        }
    }
    let mut items = Vec::new();
    for d in 1..=depth {
        for op in &all {
            items.push(Item { first: *op, depth: d });
        }
    }
    par_items(&items, Some(bridge::rt::hang_limit()), &|it: &Item| {
        println!("  fingerprint: {prop} low-level reader does not return: sequences starting with {:?}", it.first);
    }, &|it: &Item, st: &mut Stats| {
        let n = all.len();
        let mut idx = vec![0usize; it.depth];
        loop {
            let mut seq: Vec<Op> = vec![it.first];
            seq.extend(idx[1..].iter().map(|&i| all[i]));
            for input in &inputs {
                run_seq(prop, input, &seq, st);
            }
            let mut i = it.depth;
            loop {
                if i == 1 {
                    return;
                }
                i -= 1;
                idx[i] += 1;
                if idx[i] < n {
                    break;
                }
                idx[i] = 0;
            }
        }
    })
}
