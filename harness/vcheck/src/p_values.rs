//! Checks over the (type, value) universe: C01 round trip, C04 wire format, C07 self-delimiting,
//! C08 truncation, C15 sink independence. One pass shape, one oracle per property.
use crate::common::{self, U};
use bridge::rt::{hex, par_items, ty_name, val_json, Run, Stats};
use bridge::{Entry, Out, Sink, ALL_SINKS};
use refmodel::values::values;
use refmodel::*;
use serde_json::json;

pub struct Item<'a> {
    pub e: &'a Entry,
    pub vals: Vec<(usize, Val)>,
}

/// the value universe of one table row, in chunks that make good work items
pub fn items<'a>(u: &'a U, run: &Run, filter: &dyn Fn(&Entry) -> bool) -> Vec<Item<'a>> {
    let p = common::params(run);
    let mut out = Vec::new();
    for e in &u.entries {
        if !filter(e) {
            continue;
        }
        if !run.selected(&e.name) && run.only.as_ref().map(|k| !k.starts_with(&format!("{}#", e.name))).unwrap_or(false) {
            continue;
        }
        let vals: Vec<(usize, Val)> = values(&e.ty, &p).into_iter().enumerate().collect();
        for c in vals.chunks(64) {
            out.push(Item { e, vals: c.to_vec() });
        }
    }
    out
}

pub fn key(e: &Entry, i: usize) -> String {
    format!("{}#{}", e.name, i)
}

fn class<T>(o: &Out<T>) -> String {
    o.class()
}

/// the cut points explored for an encoding of length n: all of them up to 600 bytes, a
/// boundary-heavy subset beyond
pub fn cut_points(n: usize, marks: &[Mark]) -> (Vec<usize>, bool) {
    if n <= 600 {
        return ((0..n).collect(), true);
    }
    let mut ks: Vec<usize> = (0..300).collect();
    ks.extend(n - 300..n);
    let mut p = 1;
    while p < n {
        ks.push(p - 1);
        ks.push(p);
        if p + 1 < n {
            ks.push(p + 1);
        }
        p *= 2;
    }
    for m in marks {
        for k in [m.off, m.off + m.len] {
            if k < n {
                ks.push(k);
            }
            if k > 0 && k - 1 < n {
                ks.push(k - 1);
            }
        }
    }
    ks.sort();
    ks.dedup();
    (ks, false)
}

pub fn suffixes(own: &[u8]) -> Vec<Vec<u8>> {
    vec![
        vec![],
        vec![0x00],
        vec![0x01],
        vec![0x80],
        vec![0xff],
        vec![0, 0, 0, 0, 0],
        vec![0xff; 8],
        own.iter().copied().take(64).collect(),
    ]
}

/// all assignments of alternative forms (bounded)
pub fn form_assignments(seq_points: usize, replain_points: usize, max_bits: usize) -> (Vec<Forms>, bool) {
    let total = seq_points + replain_points;
    let mut out = Vec::new();
    if total <= max_bits {
        for mask in 0u32..(1u32 << total) {
            let seq: Vec<bool> = (0..seq_points).map(|i| mask & (1 << i) != 0).collect();
            let rp: Vec<bool> = (0..replain_points).map(|i| mask & (1 << (seq_points + i)) != 0).collect();
            out.push(Forms { seq_unknown: seq, replain: rp, ..Default::default() });
        }
        (out, true)
    } else {
        // beyond the bound: all-canonical, all-alternative, and each single point flipped
        out.push(Forms::default());
        out.push(Forms { seq_unknown: vec![true; seq_points], replain: vec![true; replain_points], ..Default::default() });
        for i in 0..seq_points {
            let mut s = vec![false; seq_points];
            s[i] = true;
            out.push(Forms { seq_unknown: s, ..Default::default() });
        }
        for i in 0..replain_points {
            let mut s = vec![false; replain_points];
            s[i] = true;
            out.push(Forms { replain: s, ..Default::default() });
        }
        (out, false)
    }
}

fn check_case(prop: &str, e: &Entry, i: usize, v: &Val, st: &mut Stats, thorough: bool) {
    let k = key(e, i);
    st.states += 1;
    let tname = &e.name;
    let mut bad = |st: &mut Stats, what: &str, cls: String, detail: serde_json::Value| {
        st.violate(
            format!("{prop} {what} type={tname} outcome={cls}"),
            k.clone(),
            json!({"type": tname, "descr": ty_name(&e.ty), "value_index": i, "value": val_json(v), "detail": detail}),
        );
    };
    match prop {
        "C01" => {
            for sink in [Sink::ToByteVec, Sink::ToBytes] {
                let r = &(e.enc)(v, &[sink])[0];
                st.transitions += 1;
                let bytes = match &r.out {
                    Out::Ok(b) => b.clone(),
                    o => {
                        st.bump(&format!("enc:{}", class(o)));
                        bad(st, "encode", class(o), json!({"sink": format!("{sink:?}"), "result": format!("{o:?}")}));
                        return;
                    }
                };
                let d = (e.dec)(&bytes);
                st.transitions += 1;
                st.bump(&format!("dec:{}", class(&d.out)));
                match &d.out {
                    Out::Ok(back) => {
                        if canon(&e.ty, back) != canon(&e.ty, &r.actual) {
                            bad(
                                st,
                                "roundtrip-differs",
                                "Ok(other)".into(),
                                json!({"bytes": hex(&bytes), "decoded": val_json(back), "sink": format!("{sink:?}")}),
                            );
                            return;
                        }
                        // agreement with the reference codec (the model is never believed alone)
                        st.validated += 1;
                        match ref_decode(&e.ty, &bytes) {
                            Ok((mv, n)) => {
                                if canon(&e.ty, &mv) != canon(&e.ty, back) || n != bytes.len() {
                                    bad(
                                        st,
                                        "model-decode-differs",
                                        "Ok".into(),
                                        json!({"bytes": hex(&bytes), "model": val_json(&mv), "consumed": n}),
                                    );
                                    return;
                                }
                            }
                            Err(me) => {
                                bad(st, "model-rejects-own-encoding", format!("{me:?}"), json!({"bytes": hex(&bytes)}));
                                return;
                            }
                        }
                    }
                    o => {
                        bad(st, "decode", class(o), json!({"bytes": hex(&bytes), "result": format!("{o:?}")}));
                        return;
                    }
                }
            }
            st.nontrivial += 1;
            if i == 1 {
                st.sample(json!({"type": tname, "value": val_json(v)}));
            }
        }
        "C04" => {
            let r = &(e.enc)(v, &[Sink::ToByteVec])[0];
            st.transitions += 1;
            let model = ref_encode_forms(&e.ty, &r.actual, Forms::default());
            st.validated += 1;
            match (&r.out, &model) {
                (Out::Ok(b), Ok((mb, used))) => {
                    st.bump("forward:Ok");
                    if *b != mb.b {
                        bad(st, "bytes-differ", "Ok".into(), json!({"library": hex(b), "model": hex(&mb.b)}));
                        return;
                    }
                    // backward: every legal alternative form decodes to the value it denotes
                    let expect = canon(&e.ty, &with_transient_defaults(&e.ty, &r.actual));
                    let (assignments, complete) = form_assignments(used.seq_points, used.replain_points, if thorough { 8 } else { 6 });
                    if !complete {
                        st.add("form_assignments_capped", 1);
                    }
                    for f in assignments {
                        let canonical = !f.seq_unknown.iter().any(|x| *x) && !f.replain.iter().any(|x| *x);
                        let (fb, _) = ref_encode_forms(&e.ty, &r.actual, f.clone()).expect("model encodes");
                        let d = (e.dec)(&fb.b);
                        st.transitions += 1;
                        st.validated += 1;
                        st.add("forms_decoded", 1);
                        match &d.out {
                            Out::Ok(back) if canon(&e.ty, back) == expect => {
                                if !canonical {
                                    st.add("alternative_forms_decoded", 1);
                                }
                            }
                            o => {
                                bad(
                                    st,
                                    if canonical { "decode-of-canonical" } else { "decode-of-alternative-form" },
                                    class(o),
                                    json!({"bytes": hex(&fb.b), "forms": format!("{:?}/{:?}", f.seq_unknown, f.replain), "result": format!("{o:?}").chars().take(400).collect::<String>()}),
                                );
                                return;
                            }
                        }
                    }
                    st.nontrivial += 1;
                    if i == 1 {
                        st.sample(json!({"type": tname, "value": val_json(v), "bytes": hex(b)}));
                    }
                }
                (o, Err(me)) => {
                    st.bump(&format!("forward:model-{me:?}").chars().take(60).collect::<String>());
                    // the model cannot encode this value: the library must report an error too
                    if !matches!(o, Out::Err(_)) {
                        bad(st, "model-error-library-not", class(o), json!({"model": format!("{me:?}")}));
                    }
                }
                (o, Ok(_)) => {
                    bad(st, "encode", class(o), json!({"result": format!("{o:?}")}));
                }
            }
        }
        "C07" => {
            let r = &(e.enc)(v, &[Sink::ToByteVec])[0];
            st.transitions += 1;
            let Out::Ok(b) = &r.out else {
                st.bump("skip:not-encodable");
                return;
            };
            let expect = canon(&e.ty, &with_transient_defaults(&e.ty, &r.actual));
            for s in suffixes(b) {
                let mut input = b.clone();
                input.extend_from_slice(&s);
                let d = (e.dec_ctx)(&input);
                st.transitions += 1;
                st.validated += 1;
                match (&d.out, &d.rest) {
                    (Out::Ok(back), Some(rest)) if canon(&e.ty, back) == expect && *rest == s => {
                        st.bump("exact");
                    }
                    (o, rest) => {
                        let what = match o {
                            Out::Ok(back) if canon(&e.ty, back) != expect => "value-changed-by-suffix",
                            Out::Ok(_) => "consumed-wrong-amount",
                            _ => "decode-with-suffix",
                        };
                        bad(
                            st,
                            what,
                            class(o),
                            json!({"encoding": hex(b), "suffix": hex(&s), "unread": rest.as_ref().map(|r| hex(r)), "result": format!("{o:?}").chars().take(300).collect::<String>()}),
                        );
                        return;
                    }
                }
            }
            // the alternative legal forms of the same value (unknown-size sequences, re-plain dedup
            // strings) are self-delimiting too
            if let Ok((_, used)) = ref_encode_forms(&e.ty, &r.actual, Forms::default()) {
                if used.seq_points + used.replain_points > 0 {
                    let (assignments, _) = form_assignments(used.seq_points, used.replain_points, 4);
                    for f in assignments.into_iter().skip(1) {
                        let Ok((fb, _)) = ref_encode_forms(&e.ty, &r.actual, f) else { continue };
                        let s = [0xaau8, 0x01];
                        let mut input = fb.b.clone();
                        input.extend_from_slice(&s);
                        let d = (e.dec_ctx)(&input);
                        st.transitions += 1;
                        st.validated += 1;
                        let ok = matches!(&d.out, Out::Ok(back) if canon(&e.ty, back) == expect) && d.rest.as_deref() == Some(&s[..]);
                        if !ok {
                            bad(
                                st,
                                "alternative-form-not-self-delimiting",
                                class(&d.out),
                                json!({"encoding": hex(&fb.b), "suffix": hex(&s), "unread": d.rest.as_ref().map(|r| hex(r))}),
                            );
                            return;
                        }
                        st.bump("exact(alternative form)");
                    }
                }
            }
            if !b.is_empty() {
                st.nontrivial += 1;
            }
            if i == 1 {
                st.sample(json!({"type": tname, "value": val_json(v), "encoding": hex(b)}));
            }
        }
        "C08" => {
            let r = &(e.enc)(v, &[Sink::ToByteVec])[0];
            st.transitions += 1;
            let Out::Ok(b) = &r.out else {
                st.bump("skip:not-encodable");
                return;
            };
            if b.is_empty() {
                st.bump("skip:empty-encoding");
                return;
            }
            let marks = ref_encode(&e.ty, &r.actual).map(|m| m.marks).unwrap_or_default();
            let (ks, all) = cut_points(b.len(), &marks);
            if !all {
                st.add("long_encodings_with_subset_of_cut_points", 1);
            }
            for kcut in ks {
                let d = (e.dec)(&b[..kcut]);
                st.transitions += 1;
                st.validated += 1;
                match &d.out {
                    Out::Err(_) => st.bump("Err"),
                    o => {
                        bad(
                            st,
                            "prefix-not-rejected",
                            class(o),
                            json!({"encoding": hex(b), "cut": kcut, "result": format!("{o:?}").chars().take(300).collect::<String>()}),
                        );
                        return;
                    }
                }
            }
            st.nontrivial += 1;
            if i == 1 {
                st.sample(json!({"type": tname, "value": val_json(v), "encoding": hex(b), "cuts": b.len()}));
            }
        }
        "C15" => {
            let rs = (e.enc)(v, &ALL_SINKS);
            st.transitions += rs.len() as u64;
            let first = &rs[0];
            let Out::Ok(b0) = &first.out else {
                // failing encodings must fail for every sink alike
                for (s, r) in ALL_SINKS.iter().zip(&rs) {
                    if class(&r.out) != class(&first.out) {
                        bad(st, "sinks-disagree-on-failure", class(&r.out), json!({"sink": format!("{s:?}"), "first": class(&first.out)}));
                        return;
                    }
                }
                st.bump("all-sinks-fail-alike");
                return;
            };
            for (s, r) in ALL_SINKS.iter().zip(&rs) {
                st.validated += 1;
                match (s, &r.out) {
                    (Sink::Size, Out::Ok(_)) => {
                        if r.size != Some(b0.len()) {
                            bad(st, "size-calculator", "Ok".into(), json!({"size": r.size, "len": b0.len(), "bytes": hex(b0)}));
                            return;
                        }
                    }
                    (_, Out::Ok(b)) => {
                        if b != b0 {
                            bad(st, "sink-bytes-differ", "Ok".into(), json!({"sink": format!("{s:?}"), "bytes": hex(b), "reference_sink_bytes": hex(b0)}));
                            return;
                        }
                    }
                    (_, o) => {
                        bad(st, "sink-fails", class(o), json!({"sink": format!("{s:?}"), "result": format!("{o:?}")}));
                        return;
                    }
                }
            }
            st.bump("all-sinks-agree");
            if !b0.is_empty() {
                st.nontrivial += 1;
            }
            if i == 1 {
                st.sample(json!({"type": tname, "value": val_json(v), "bytes": hex(b0)}));
            }
        }
        _ => unreachable!(),
    }
}

pub fn run(prop: &str, tier: &str, only: Option<String>) -> i32 {
    let level = match prop {
        "C08" => "fault_enumeration",
        _ => "model_checking",
    };
    let mut run = Run::new(prop, tier, level, only);
    let u = common::load();
    let thorough = run.thorough();
    // C01 is about built-in codecs; the others quantify over built-in and derived types
    let filter: Box<dyn Fn(&Entry) -> bool> = match prop {
        "C01" => Box::new(|e: &Entry| !e.derived),
        _ => Box::new(|_e: &Entry| true),
    };
    if prop == "C04" {
        // the model is believed only while it reproduces the bytes desert-rust did not write
        match refmodel::golden::check_anchor() {
            Ok(n) => {
                run.extra.insert("scala_golden_bytes_reproduced_by_the_model".into(), json!(n));
            }
            Err(e) => {
                eprintln!("MACHINERY: the reference model lost its anchor to the Scala golden file: {e}");
                return 2;
            }
        }
    }
    let its = items(&u, &run, &*filter);
    let types: std::collections::BTreeSet<&str> = its.iter().map(|i| i.e.name.as_str()).collect();
    let sel = run.only.clone();
    let stats = par_items(
        &its,
        Some(bridge::rt::hang_limit()),
        &|it: &Item| {
            println!("  hang while exploring type {} (values {}..)", it.e.name, it.vals[0].0);
        },
        &|it: &Item, st: &mut Stats| {
            for (i, v) in &it.vals {
                if let Some(k) = &sel {
                    if k.contains('#') && *k != key(it.e, *i) {
                        continue;
                    }
                }
                check_case(prop, it.e, *i, v, st, thorough);
            }
        },
    );
    run.stats = stats;
    run.stats.add("types", types.len() as u64);
    run.rule = match prop {
        "C01" => "every built-in type expression of the generated universe x every value of its small-scope domain (refmodel::values); a case is non-trivial when encode, decode, value comparison and model agreement were all executed for both entry points".into(),
        "C04" => "every (type, value) of the universe: library bytes == model bytes; every assignment of alternative forms (unknown-size sequences, re-plain dedup strings) decoded by the library; non-trivial = forward and backward both executed".into(),
        "C07" => "every (type, value) x 8 suffixes decoded from a DeserializationContext; sequences, sets and maps of 65 535 .. 131 073 elements in 7 containers followed by a suffix; non-trivial = non-empty encoding".into(),
        "C08" => "every cut point of every encoding (all of them up to 600 bytes, boundary-heavy subset beyond); non-trivial = encoding with at least one cut point".into(),
        _ => "every (type, value) through six sinks on the same instance; every operation sequence (depth <= 3 / 4, 22 operations with extreme counts) on SliceInput, OwnedInput, DeserializationContext and a DeserializationContext inside a chunk of an evolved record: step-by-step agreement and agreement with a reference cursor; every script (length <= 2 / 3) of the 18 output primitives issued by a field codec at top level, in a plain record and in chunk 0 / 1 of an evolved record, through Vec, BytesMut and SizeCalculator: bytes == the format's framing around the primitives' prescribed bytes; non-trivial = non-empty encoding".into(),
    };
    run.bounds = json!({"types": types.len(), "params": format!("{:?}", common::params(&run)), "universe_thorough": universe::THOROUGH});
    run.assumptions = vec![
        "small-scope hypothesis: nesting depth <= 3, container length <= 2/3, boundary-value leaf domains".into(),
        "Bridge to_val/from_val conversions and the chrono/bigdecimal/uuid crates are trusted".into(),
    ];
    if prop == "C08" || prop == "C07" {
        // a user codec that embeds a compressed block between other data
        use bridge::tables::{zipped_decode, zipped_encode, Zipped};
        let mut st = Stats::default();
        let payloads: Vec<Vec<u8>> = vec![vec![], vec![7], vec![0; 300], (0..300u32).map(|i| (i.wrapping_mul(2654435761) >> 24) as u8).collect(), b"abcabcabcabc".to_vec()];
        for (pi, payload) in payloads.iter().enumerate() {
            let z = Zipped { id: 9, payload: payload.clone(), tail: 0xbeef };
            let Out::Ok(b) = zipped_encode(&z) else {
                st.violate(format!("{prop} compressed-user-codec encode"), format!("zipped:{pi}"), json!({}));
                continue;
            };
            st.states += 1;
            if prop == "C08" {
                for k in 0..b.len() {
                    let d = zipped_decode(&b[..k]);
                    st.transitions += 1;
                    st.validated += 1;
                    if !matches!(d, Out::Err(_)) {
                        st.violate(
                            format!("C08 prefix-not-rejected type=user codec with a compressed block payload_len={}", payload.len()),
                            format!("zipped:{pi}"),
                            json!({"encoding": hex(&b), "cut": k, "result": format!("{d:?}").chars().take(200).collect::<String>()}),
                        );
                        break;
                    }
                    st.bump("Err");
                }
            } else {
                let d = zipped_decode(&b);
                st.transitions += 1;
                st.validated += 1;
                if d != Out::Ok(z.clone()) {
                    st.violate(
                        format!("C07 data-after-a-compressed-block-disturbed payload_len={}", payload.len()),
                        format!("zipped:{pi}"),
                        json!({"encoding": hex(&b), "result": format!("{d:?}").chars().take(200).collect::<String>()}),
                    );
                } else {
                    st.bump("exact");
                }
            }
            st.nontrivial += 1;
        }
        run.stats.merge(st);
    }
    if prop == "C07" && run.only.as_ref().map(|k| k.starts_with("long:")).unwrap_or(true) {
        // long sequences: counts around 2^16 (where a reader might cap what it preallocates) in
        // every sequence-like container, followed by a suffix
        let mut st = Stats::default();
        let containers = ["Vec<u16>", "std::collections::LinkedList<u16>", "std::collections::BTreeSet<u32>", "std::collections::HashSet<u32>", "std::collections::BTreeMap<u32, u8>", "std::collections::HashMap<u32, u8>", "Vec<String>"];
        for cname in containers {
            let Some(&ei) = u.by_name.get(cname) else { continue };
            let e = &u.entries[ei];
            for n in [65_535usize, 65_536, 65_537, 70_000, 131_073] {
                let key = format!("long:{cname}:{n}");
                if !run.selected(&key) {
                    continue;
                }
                let v = match &e.ty {
                    Ty::Map(..) => Val::Map((0..n).map(|i| (Val::U(i as u128), Val::U((i % 251) as u128))).collect()),
                    Ty::Seq(_, t) if **t == Ty::Str => Val::Seq((0..n).map(|i| Val::Str(if i % 7 == 0 { "x".into() } else { String::new() })).collect()),
                    _ => Val::Seq((0..n).map(|i| Val::U((i % 65_521) as u128 + if cname.contains("Set") { (i / 65_521 * 65_521) as u128 } else { 0 })).collect()),
                };
                let r = &(e.enc)(&v, &[Sink::ToByteVec])[0];
                let Out::Ok(b) = &r.out else {
                    st.violate(format!("C07 long-sequence encode type={cname}"), key, json!({"elements": n}));
                    continue;
                };
                let mut input = b.clone();
                input.extend_from_slice(&[0xee, 0x01, 0x80]);
                let d = (e.dec_ctx)(&input);
                st.states += 1;
                st.transitions += 2;
                st.validated += 1;
                let ok = matches!(&d.out, Out::Ok(g) if canon(&e.ty, g) == canon(&e.ty, &r.actual)) && d.rest.as_deref() == Some(&[0xee, 0x01, 0x80][..]);
                if !ok {
                    st.violate(
                        format!("C07 long-sequence not-self-delimiting type={cname} outcome={}", d.out.class()),
                        key,
                        json!({"elements": n, "encoding_len": b.len(), "unread_after_decode": d.rest.as_ref().map(|r| r.len()), "expected_unread": 3}),
                    );
                    continue;
                }
                st.bump("long-sequence:exact");
                st.nontrivial += 1;
            }
        }
        run.stats.merge(st);
    }
    if prop == "C15" {
        // sources: every operation sequence on the three BinaryInput implementations
        let depth = if thorough { 4 } else { 3 };
        let st = crate::p_inputs::explore("C15", depth, &run.only);
        run.stats.merge(st);
        run.extra.insert("source_exploration".into(), json!({"operations": 22, "depth": depth, "inputs": "all strings of length <= 3 over the 12-byte alphabet + 2 compressed frames", "counts": ["0", "1", "2", "rest", "rest+1", "2^31", "usize::MAX-pos", "usize::MAX"], "implementations": ["SliceInput", "OwnedInput", "DeserializationContext", "DeserializationContext inside chunk 1 of an evolved record (region at a non-zero offset, data after it)"]}));
        // sinks: every script of output primitives issued by a field codec, in four placements
        let wdepth = if thorough { 3 } else { 2 };
        let st = crate::p_inputs::explore_writes(wdepth, &run.only);
        run.stats.merge(st);
        run.extra.insert("sink_primitive_exploration".into(), json!({"primitives": 18, "depth": wdepth, "placements": ["top level", "plain record field", "chunk 0 of an evolved record", "chunk 1 of an evolved record"], "sinks": ["Vec<u8>", "BytesMut", "SizeCalculator"]}));
    }
    let mut code = 0;
    if matches!(prop, "C07" | "C08") {
        // the (writer, reader) pairs of evolved records are explored by the evolution pass
        code = crate::p_evo::extra_for(prop, &mut run, &u);
    }
    let c = run.finish();
    std::cmp::max(code, c)
}
