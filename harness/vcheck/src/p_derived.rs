//! Derived codecs: C02 (translation validation of the macro expansion), C13 (constructor
//! identity), C14 (transients).
use crate::common::{self, U};
use crate::p_values::{form_assignments, items, key, Item};
use bridge::dynrec::{dyn_decode, dyn_encode};
use bridge::rt::{hex, par_items, ty_name, val_json, Run, Stats};
use bridge::{Entry, ErrKind, Out, Sink};
use refmodel::spec::{self, VKind};
use refmodel::values::values;
use refmodel::wire::varu;
use refmodel::*;
use serde_json::json;
use std::sync::Arc;

fn same_outcome(ty: &Ty, a: &Out<Val>, b: &Out<Val>) -> bool {
    match (a, b) {
        (Out::Ok(x), Out::Ok(y)) => canon(ty, x) == canon(ty, y),
        (Out::Err(x), Out::Err(y)) => x.variant() == y.variant(),
        _ => false,
    }
}

fn c02_case(e: &Entry, i: usize, v: &Val, st: &mut Stats, thorough: bool) {
    let k = key(e, i);
    st.states += 1;
    let tname = &e.name;
    let mut bad = |st: &mut Stats, what: &str, cls: String, detail: serde_json::Value| {
        st.violate(
            format!("C02 {what} type={tname} outcome={cls}"),
            k.clone(),
            json!({"type": tname, "descr": ty_name(&e.ty), "value_index": i, "value": val_json(v), "detail": detail}),
        );
    };
    let r = &(e.enc)(v, &[Sink::ToByteVec])[0];
    st.transitions += 1;
    let model = ref_encode_forms(&e.ty, &r.actual, Forms::default());
    st.validated += 1;
    let (bytes, used) = match (&r.out, &model) {
        (Out::Ok(b), Ok((mb, used))) => {
            if *b != mb.b {
                bad(st, "derived-bytes-differ-from-interpreted-declaration", "Ok".into(), json!({"derived": hex(b), "model": hex(&mb.b)}));
                return;
            }
            (b.clone(), used.clone())
        }
        (Out::Err(le), Err(me)) => {
            // both refuse (transient constructor): same documented error
            let ok = matches!((le, me), (ErrKind::SerializingTransientConstructor { .. }, EncErr::TransientConstructor { .. }));
            st.bump("both-refuse");
            if !ok {
                bad(st, "refusals-differ", format!("{le:?}"), json!({"model": format!("{me:?}")}));
            }
            return;
        }
        (o, m) => {
            bad(st, "encode-outcomes-differ", o.class(), json!({"library": format!("{o:?}").chars().take(200).collect::<String>(), "model": format!("{:?}", m.as_ref().map(|_| "Ok")).chars().take(200).collect::<String>()}));
            return;
        }
    };
    // (3) the dynamic driver, calling the real Adt* API as the expansion should, writes the same
    let db = dyn_encode(&e.ty, &r.actual);
    st.transitions += 1;
    st.validated += 1;
    if db != Out::Ok(bytes.clone()) {
        bad(st, "derived-and-field-by-field-driver-bytes-differ", "Ok".into(), json!({"derived": hex(&bytes), "driver": format!("{db:?}").chars().take(300).collect::<String>()}));
        return;
    }
    // (1)+(2): own encoding and all its alternative forms decode alike in impl, model and driver
    let expect = canon(&e.ty, &with_transient_defaults(&e.ty, &r.actual));
    let (assignments, _) = form_assignments(used.seq_points, used.replain_points, if thorough { 6 } else { 4 });
    for f in assignments {
        let (fb, _) = ref_encode_forms(&e.ty, &r.actual, f).expect("model encodes");
        let d = (e.dec)(&fb.b);
        st.transitions += 1;
        st.validated += 2;
        let ok = matches!(&d.out, Out::Ok(g) if canon(&e.ty, g) == expect);
        if !ok {
            bad(st, "roundtrip", d.out.class(), json!({"bytes": hex(&fb.b), "got": format!("{:?}", d.out).chars().take(300).collect::<String>(), "expected": val_json(&expect)}));
            return;
        }
        let md = ref_decode(&e.ty, &fb.b);
        if !matches!(&md, Ok((m, n)) if canon(&e.ty, m) == expect && *n == fb.b.len()) {
            bad(st, "model-decode-differs", "Ok".into(), json!({"bytes": hex(&fb.b), "model": format!("{md:?}").chars().take(300).collect::<String>()}));
            return;
        }
        let dd = dyn_decode(&e.ty, &fb.b);
        st.transitions += 1;
        if !same_outcome(&e.ty, &d.out, &dd) {
            bad(st, "derived-and-field-by-field-driver-results-differ", d.out.class(), json!({"bytes": hex(&fb.b), "driver": format!("{dd:?}").chars().take(300).collect::<String>()}));
            return;
        }
    }
    // differential on damaged input: truncations and single-byte rewrites of the own encoding
    // must be judged alike by the derived impl and by the field-by-field driver
    if bytes.len() <= 24 {
        let mut inputs: Vec<Vec<u8>> = (0..bytes.len()).map(|n| bytes[..n].to_vec()).collect();
        for pos in 0..bytes.len() {
            for nb in [0x00u8, 0x01, 0x02, 0x7f, 0x80, 0xff] {
                if bytes[pos] != nb {
                    let mut t = bytes.clone();
                    t[pos] = nb;
                    inputs.push(t);
                }
            }
        }
        for inp in inputs {
            let d = (e.dec)(&inp);
            let dd = dyn_decode(&e.ty, &inp);
            st.transitions += 2;
            st.validated += 1;
            st.add("damaged_inputs_compared", 1);
            // panics are C05's business; here only agreement of defined results is demanded
            if d.out.is_panic() || dd.is_panic() {
                continue;
            }
            // one direction only: whatever the derived impl accepts, the field-by-field procedure
            // accepts with the same meaning (the derived impl may be stricter on damaged input)
            let same = match (&d.out, &dd) {
                (Out::Ok(x), Out::Ok(y)) => canon(&e.ty, x) == canon(&e.ty, y),
                (Out::Err(_), _) => true,
                _ => false,
            };
            if !same {
                bad(st, "derived-accepts-damaged-input-the-field-by-field-procedure-rejects", d.out.class(), json!({"bytes": hex(&inp), "derived": format!("{:?}", d.out).chars().take(200).collect::<String>(), "driver": format!("{dd:?}").chars().take(200).collect::<String>()}));
                return;
            }
        }
    }
    st.nontrivial += 1;
    st.bump("agree");
    if i == 0 {
        st.sample(json!({"declaration": ty_name(&e.ty), "value": val_json(v), "bytes": hex(&bytes)}));
    }
}

pub fn run_c02(tier: &str, only: Option<String>) -> i32 {
    let mut run = Run::new("C02", tier, "translation_validation", only);
    let u = common::load();
    let thorough = run.thorough();
    let its = items(&u, &run, &|e: &Entry| e.derived && !e.tags.contains(&"boundary"));
    let programs: std::collections::BTreeSet<&str> = its.iter().map(|i| i.e.name.as_str()).collect();
    let sel = run.only.clone();
    let stats = par_items(&its, Some(bridge::rt::hang_limit()), &|it: &Item| {
        println!("  hang while exploring {}", it.e.name);
    }, &|it: &Item, st: &mut Stats| {
        for (i, v) in &it.vals {
            if let Some(k) = &sel {
                if k.contains('#') && *k != key(it.e, *i) {
                    continue;
                }
            }
            c02_case(it.e, *i, v, st, thorough);
        }
    });
    run.stats = stats;
    // a definition the model's descriptors do not express: evolution steps on the enum itself. The
    // wrapper is then an evolved record whose chunk 0 holds the constructor (index ++ record).
    if run.only.as_ref().map(|k| k == "enum-level-evolution").unwrap_or(true) {
        for (v, want, got, back) in universe::extra::enum_level_evolution() {
            run.stats.states += 1;
            run.stats.transitions += 2;
            run.stats.validated += 2;
            if got.as_ref() != Ok(&want) || back != Ok(true) {
                run.stats.violate(
                    "C02 enum with evolution steps of its own does not round-trip".into(),
                    "enum-level-evolution".into(),
                    json!({"value": v, "prescribed": hex(&want), "library_bytes": got.map(|b| hex(&b)), "decode_of_prescribed_is_the_value": back}),
                );
                break;
            }
            run.stats.bump("enum-level-evolution:round-trips");
            run.stats.nontrivial += 1;
        }
    }
    run.stats.add("programs", programs.len() as u64);
    run.rule = "every generated #[derive(BinaryCodec)] declaration (unit/empty/1-3 field structs over 14 field types, transient at every position, Option spellings and alias, recursive types, enums over 7 variant kinds sorted/unsorted, one declaration per node of the compiled history trees) x every small-scope value: derived bytes == bytes of the declaration interpreted by the model == bytes of the field-by-field driver; decode of own encoding and of all alternative forms agrees three ways; damaged inputs judged alike by derived impl and driver; plus an enum with evolution steps of its own (bytes and round trip of each kind of constructor)".into();
    run.bounds = json!({"programs": programs.len(), "params": format!("{:?}", common::params(&run))});
    run.assumptions = vec![
        "the descriptor of each declaration is emitted from the same abstract declaration as the Rust text (refmodel::spec), never parsed back from it".into(),
        "grammar of declarations as in DESIGN 5; tuple structs and unions are rejected by the macro and are outside the property".into(),
    ];
    run.finish()
}

// ---------------------------------------------------------------------------------------------

fn variant_by_name(ed: &EnumDescr, name: &str) -> usize {
    ed.variants.iter().position(|v| v.name == name).unwrap()
}

/// value of `from` re-expressed in `to` (same variant name)
fn transport(from: &EnumDescr, to: &EnumDescr, v: &Val) -> Val {
    match v {
        Val::Enum(i, fs) => Val::Enum(variant_by_name(to, &from.variants[*i].name), fs.clone()),
        o => panic!("transport {o:?}"),
    }
}

fn enum_of(ty: &Ty) -> &EnumDescr {
    match ty {
        Ty::Enum(e) => e,
        o => panic!("not an enum: {o:?}"),
    }
}

struct EnumCase {
    /// compiled entry names (None = dynamic driver)
    compiled: Option<(String, String)>,
    base: Ty,
    ext: Ty,
    new_decl: usize,
    label: String,
}

fn out_of_range_indices(n: usize) -> Vec<u32> {
    vec![n as u32, n as u32 + 1, 127, 128, 1 << 14, u32::MAX]
}

fn c13_case(c: &EnumCase, u: &U, st: &mut Stats, thorough: bool, only: &Option<String>) {
    let p = common::params_for(thorough);
    let eb = enum_of(&c.base);
    let ee = enum_of(&c.ext);
    let key = format!("enum:{}", c.label);
    if let Some(k) = only {
        if *k != key {
            return;
        }
    }
    let enc = |ty: &Ty, name: Option<&String>, v: &Val| -> Out<Vec<u8>> {
        match name {
            Some(n) => (u.get(n).enc)(v, &[Sink::ToByteVec])[0].out.clone(),
            None => dyn_encode(ty, v),
        }
    };
    let dec = |ty: &Ty, name: Option<&String>, b: &[u8]| -> Out<Val> {
        match name {
            Some(n) => (u.get(n).dec)(b).out,
            None => dyn_decode(ty, b),
        }
    };
    let (nb, ne) = match &c.compiled {
        Some((a, b)) => (Some(a), Some(b)),
        None => (None, None),
    };
    let mut bad = |st: &mut Stats, what: &str, cls: String, detail: serde_json::Value| {
        st.violate(
            format!("C13 {what} enum={} outcome={cls}", c.label),
            key.clone(),
            json!({"base": ty_name(&c.base), "extended": ty_name(&c.ext), "compiled": c.compiled.is_some(), "detail": detail}),
        );
    };
    // old data under the extended definition keeps its meaning
    for v in values(&c.base, &p) {
        st.states += 1;
        let Val::Enum(decl, _) = &v else { unreachable!() };
        if eb.variants[*decl].transient {
            continue;
        }
        let b = match enc(&c.base, nb, &v) {
            Out::Ok(b) => b,
            o => {
                bad(st, "encode", o.class(), json!({"value": val_json(&v)}));
                return;
            }
        };
        st.transitions += 1;
        // leading bytes: 00 varu(index the model assigns)
        let mut lead = vec![0u8];
        lead.extend(varu(eb.wire_index(*decl)));
        st.validated += 1;
        if !b.starts_with(&lead) {
            bad(st, "leading-bytes", "Ok".into(), json!({"bytes": hex(&b), "expected_prefix": hex(&lead), "value": val_json(&v)}));
            return;
        }
        let got = dec(&c.ext, ne, &b);
        st.transitions += 1;
        st.validated += 1;
        let want = with_transient_defaults(&c.ext, &transport(eb, ee, &v));
        if !matches!(&got, Out::Ok(g) if canon(&c.ext, g) == canon(&c.ext, &want)) {
            bad(st, "old-data-changed-meaning-under-extension", got.class(), json!({"bytes": hex(&b), "value": val_json(&v), "got": format!("{got:?}").chars().take(300).collect::<String>()}));
            return;
        }
        st.bump("old-data-same-under-extension");
        st.nontrivial += 1;
        if st.samples.is_empty() {
            st.sample(json!({"enum": c.label, "value": val_json(&v), "bytes": hex(&b)}));
        }
    }
    // data of the new variant under the old definition is an error
    for v in values(&c.ext, &p) {
        let Val::Enum(decl, _) = &v else { unreachable!() };
        if *decl != c.new_decl || ee.variants[*decl].transient {
            continue;
        }
        st.states += 1;
        let Out::Ok(b) = enc(&c.ext, ne, &v) else {
            bad(st, "encode-new-variant", "not Ok".into(), json!({"value": val_json(&v)}));
            return;
        };
        let got = dec(&c.base, nb, &b);
        st.transitions += 2;
        st.validated += 1;
        // the dynamic driver cannot reproduce what the expansion does after its last case; the
        // compiled enums decide that part
        if !matches!(got, Out::Err(_)) {
            bad(st, "unknown-constructor-not-an-error", got.class(), json!({"bytes": hex(&b), "got": format!("{got:?}").chars().take(300).collect::<String>()}));
            return;
        }
        st.bump("new-variant-rejected-by-old-definition");
        st.nontrivial += 1;
    }
    // an index the definition does not know, followed by what would be a complete valid value of
    // another case (its index and record): the constructor is chosen by the index alone, so Err
    for v in values(&c.base, &p) {
        let Val::Enum(decl, _) = &v else { unreachable!() };
        if eb.variants[*decl].transient {
            continue;
        }
        let Out::Ok(b) = enc(&c.base, nb, &v) else { continue };
        for idx in [eb.variants.len() as u32, 127, u32::MAX] {
            st.states += 1;
            let mut t = vec![0u8];
            t.extend(varu(idx));
            t.extend_from_slice(&b[1..]);
            let got = dec(&c.base, nb, &t);
            st.transitions += 1;
            st.validated += 1;
            if !matches!(got, Out::Err(_)) {
                bad(st, "unknown-index-followed-by-valid-case-accepted", got.class(), json!({"bytes": hex(&t), "index": idx, "got": format!("{got:?}").chars().take(300).collect::<String>()}));
                return;
            }
            st.bump("bad-index-then-valid-case:Err");
        }
    }
    // every constructor index the definition does not know, and every transient one
    for (def, name, ed) in [(&c.base, nb, eb), (&c.ext, ne, ee)] {
        let mut idxs = out_of_range_indices(ed.variants.len());
        for (wi, decl) in ed.order().iter().enumerate() {
            if ed.variants[*decl].transient {
                idxs.push(wi as u32);
            }
        }
        for idx in idxs {
            for tail in [vec![], vec![0u8], vec![0u8, 0, 0, 0, 0, 0]] {
                st.states += 1;
                let mut b = vec![0u8];
                b.extend(varu(idx));
                b.extend(&tail);
                let got = dec(def, name, &b);
                st.transitions += 1;
                st.validated += 1;
                if !matches!(got, Out::Err(_)) {
                    bad(st, "bad-constructor-index-not-an-error", got.class(), json!({"definition": ty_name(def), "bytes": hex(&b), "index": idx, "got": format!("{got:?}").chars().take(300).collect::<String>()}));
                    return;
                }
                st.bump("bad-index-rejected");
            }
        }
    }
}

pub fn run_c13(tier: &str, only: Option<String>) -> i32 {
    let mut run = Run::new("C13", tier, "model_checking", only);
    let u = common::load();
    let thorough = run.thorough();
    let mut cases: Vec<EnumCase> = Vec::new();
    for (b, x, idx) in &u.spec.enum_ext {
        cases.push(EnumCase {
            compiled: Some((b.clone(), x.clone())),
            base: u.get(b).ty.clone(),
            ext: u.get(x).ty.clone(),
            new_decl: *idx,
            label: format!("{b}->{x}"),
        });
    }
    // dynamic: all enums with <= 3 variants over all variant kinds, sorted or not, extended by
    // each of four kinds
    let kinds = [VKind::Unit, VKind::Tuple1, VKind::Tuple2, VKind::Struct, VKind::StructEvolved, VKind::TupleEvolved, VKind::Transient];
    let mut shapes: Vec<Vec<VKind>> = Vec::new();
    for a in kinds {
        shapes.push(vec![a]);
        for b in kinds {
            shapes.push(vec![a, b]);
            for c in kinds {
                shapes.push(vec![a, b, c]);
            }
        }
    }
    let mut n = 0;
    for sh in &shapes {
        for sorted in [false, true] {
            for xk in [VKind::Unit, VKind::Tuple2, VKind::StructEvolved, VKind::Transient] {
                let name = format!("DE{n}");
                n += 1;
                let base = spec::make_enum(&name, sh, sorted);
                let (x, idx) = spec::extend_enum(enum_of(&base), &format!("{name}X"), xk);
                cases.push(EnumCase {
                    compiled: None,
                    base,
                    ext: Ty::Enum(Arc::new(x)),
                    new_decl: idx,
                    label: format!("dyn {:?}{} + {:?}", sh, if sorted { " sorted" } else { "" }, xk),
                });
            }
        }
    }
    let sel = run.only.clone();
    let stats = par_items(&cases, Some(bridge::rt::hang_limit()), &|c: &EnumCase| {
        println!("  hang on {}", c.label);
    }, &|c: &EnumCase, st: &mut Stats| c13_case(c, &u, st, thorough, &sel));
    run.stats = stats;
    run.stats.add("compiled_enum_extension_pairs", u.spec.enum_ext.len() as u64);
    run.stats.add("dynamic_enum_extension_pairs", (cases.len() - u.spec.enum_ext.len()) as u64);
    run.rule = "every enum of the declaration universe with its one-variant extensions (compiled: all 1- and 2-variant enums over 7 variant kinds, sorted and unsorted; dynamic driver: all enums with <= 3 variants x 4 extension kinds) x every value: old data keeps its meaning, new-variant data is an error for the old definition, leading bytes are 00 varu(model index), every unknown or transient index is an error".into();
    run.bounds = json!({"variants": "<= 3 (+1 extension)", "indices": "n, n+1, 127, 128, 2^14, u32::MAX and every transient index, x 3 tails"});
    run.assumptions = vec!["extensions place the new variant after the existing ones in index order (declared first under a last-sorting name when sorted)".into()];
    run.finish()
}

// ---------------------------------------------------------------------------------------------

fn has_transient(ty: &Ty) -> bool {
    match ty {
        Ty::Record(rd) => rd.fields.iter().any(|f| f.transient.is_some()),
        Ty::Enum(ed) => ed.variants.iter().any(|v| v.transient),
        _ => false,
    }
}

fn c14_case(e: &Entry, i: usize, v: &Val, st: &mut Stats) {
    let k = key(e, i);
    st.states += 1;
    let tname = &e.name;
    let mut bad = |st: &mut Stats, what: &str, cls: String, detail: serde_json::Value| {
        st.violate(
            format!("C14 {what} type={tname} outcome={cls}"),
            k.clone(),
            json!({"type": tname, "descr": ty_name(&e.ty), "value": val_json(v), "detail": detail}),
        );
    };
    match (&e.ty, v) {
        (Ty::Enum(ed), Val::Enum(decl, _)) if ed.variants[*decl].transient => {
            // a transient constructor: the dedicated error, naming type and constructor, for every sink
            let rs = (e.enc)(v, &bridge::ALL_SINKS);
            st.transitions += rs.len() as u64;
            for r in &rs {
                st.validated += 1;
                match &r.out {
                    Out::Err(ErrKind::SerializingTransientConstructor { constructor_name, type_name })
                        if *constructor_name == ed.variants[*decl].name && *type_name == ed.name => {}
                    o => {
                        bad(st, "transient-constructor", o.class(), json!({"result": format!("{o:?}").chars().take(300).collect::<String>(), "expected": format!("SerializingTransientConstructor {{ {} :: {} }}", ed.name, ed.variants[*decl].name)}));
                        return;
                    }
                }
            }
            st.bump("transient-constructor-refused");
            st.nontrivial += 1;
        }
        _ => {
            let with_defaults = with_transient_defaults(&e.ty, v);
            let a = &(e.enc)(v, &[Sink::ToByteVec])[0];
            let b = &(e.enc)(&with_defaults, &[Sink::ToByteVec])[0];
            st.transitions += 2;
            st.validated += 1;
            let (Out::Ok(ba), Out::Ok(bb)) = (&a.out, &b.out) else {
                bad(st, "encode", a.out.class(), json!({"a": format!("{:?}", a.out).chars().take(200).collect::<String>(), "b": format!("{:?}", b.out).chars().take(200).collect::<String>()}));
                return;
            };
            if ba != bb {
                bad(st, "transient-field-reaches-the-wire", "Ok".into(), json!({"bytes": hex(ba), "bytes_with_transients_set_to_default": hex(bb)}));
                return;
            }
            let d = (e.dec)(ba);
            st.transitions += 1;
            st.validated += 1;
            if !matches!(&d.out, Out::Ok(g) if canon(&e.ty, g) == canon(&e.ty, &with_defaults)) {
                bad(st, "decode-does-not-set-default", d.out.class(), json!({"bytes": hex(ba), "got": format!("{:?}", d.out).chars().take(300).collect::<String>(), "expected": val_json(&with_defaults)}));
                return;
            }
            if *v != with_defaults {
                st.nontrivial += 1;
                st.bump("transient-varied:bytes-equal");
                if i % 7 == 1 {
                    st.sample(json!({"type": ty_name(&e.ty), "value": val_json(v), "bytes": hex(ba)}));
                }
            } else {
                st.bump("transients-at-default");
            }
        }
    }
}

pub fn run_c14(tier: &str, only: Option<String>) -> i32 {
    let mut run = Run::new("C14", tier, "model_checking", only);
    let u = common::load();
    let thorough = run.thorough();
    let its = items(&u, &run, &|e: &Entry| e.derived && has_transient(&e.ty));
    let programs: std::collections::BTreeSet<&str> = its.iter().map(|i| i.e.name.as_str()).collect();
    let sel = run.only.clone();
    let stats = par_items(&its, Some(bridge::rt::hang_limit()), &|it: &Item| {
        println!("  hang while exploring {}", it.e.name);
    }, &|it: &Item, st: &mut Stats| {
        for (i, v) in &it.vals {
            if let Some(k) = &sel {
                if k.contains('#') && *k != key(it.e, *i) {
                    continue;
                }
            }
            c14_case(it.e, *i, v, st);
        }
    });
    run.stats = stats;
    run.stats.add("declarations_with_transients", programs.len() as u64);
    // histories ending in FieldMadeTransient(f), whatever earlier steps touched f: encodable, and
    // the version round-trips (dynamic driver; the derived ones are in the universe above)
    let (dh, depth) = crate::p_evo::dyn_histories(thorough);
    let mut hitems: Vec<(usize, usize)> = Vec::new();
    for (hi, h) in dh.iter().enumerate() {
        for k in 1..=h.steps.len() {
            if matches!(h.steps[k - 1], refmodel::evo::HStep::MakeTransient { .. }) {
                hitems.push((hi, k));
            }
        }
    }
    // the same (prefix, k) occurs under many maximal histories: keep one representative
    let mut seen = std::collections::HashSet::new();
    hitems.retain(|(hi, k)| seen.insert((dh[*hi].base.clone(), dh[*hi].steps[..*k].to_vec())));
    let sel = run.only.clone();
    let hs = par_items(&hitems, Some(bridge::rt::hang_limit()), &|_| {}, &|(hi, k): &(usize, usize), st: &mut Stats| {
        let h = &dh[*hi];
        let d = h.decl_at(*k);
        let ty = Ty::Record(Arc::new(d));
        let key = format!("hist:{hi}/k{k}");
        if let Some(s) = &sel {
            if *s != key {
                return;
            }
        }
        for v in values(&ty, &refmodel::values::Params { leaf_k: 3, seq_len: 1, elem_k: 2, cap: 24, rec_depth: 1 }) {
            st.states += 1;
            let enc = dyn_encode(&ty, &v);
            st.transitions += 1;
            st.validated += 1;
            let want = with_transient_defaults(&ty, &v);
            let ok = match &enc {
                Out::Ok(b) => {
                    st.transitions += 1;
                    matches!(dyn_decode(&ty, b), Out::Ok(g) if g == want) && ref_encode(&ty, &v).map(|m| m.b == *b).unwrap_or(false)
                }
                _ => false,
            };
            if !ok {
                st.violate(
                    format!("C14 history-ending-in-FieldMadeTransient-not-encodable steps={:?} outcome={}", h.steps[..*k].iter().map(|s| format!("{s:?}").chars().take(24).collect::<String>()).collect::<Vec<_>>(), enc.class()),
                    key.clone(),
                    json!({"declaration": ty_name(&ty), "value": val_json(&v), "result": format!("{enc:?}").chars().take(300).collect::<String>()}),
                );
                return;
            }
            st.bump("made-transient-history:encodable");
            st.nontrivial += 1;
        }
    });
    run.stats.merge(hs);
    // compiled histories: data written *before* a field was made transient, read by every later
    // version - whatever the old data holds for that field, the reader's value is the declared
    // default (only this is asserted here; the rest of the outcome is C03's)
    {
        let mut pairs: Vec<(usize, usize, usize)> = Vec::new();
        for (hi, h) in u.spec.histories.iter().enumerate() {
            for k in 1..=h.steps.len() {
                if matches!(h.steps[k - 1], refmodel::evo::HStep::MakeTransient { .. }) {
                    for w in 0..k {
                        for r in k..=h.steps.len() {
                            pairs.push((hi, w, r));
                        }
                    }
                }
            }
        }
        let mut seen = std::collections::HashSet::new();
        pairs.retain(|(hi, w, r)| seen.insert((u.spec.hist_decl[*hi][*w].clone(), u.spec.hist_decl[*hi][*r].clone())));
        let sel = run.only.clone();
        let cs = par_items(&pairs, Some(bridge::rt::hang_limit()), &|_| {}, &|(hi, w, r): &(usize, usize, usize), st: &mut Stats| {
            let ew = u.get(&u.spec.hist_decl[*hi][*w]);
            let er = u.get(&u.spec.hist_decl[*hi][*r]);
            let key = format!("oldhist:{}>{}", ew.name, er.name);
            if let Some(s) = &sel {
                if *s != key {
                    return;
                }
            }
            let Ty::Record(rd) = &er.ty else { return };
            for v in values(&ew.ty, &refmodel::values::Params { leaf_k: 3, seq_len: 1, elem_k: 2, cap: 24, rec_depth: 1 }) {
                let Out::Ok(b) = &(ew.enc)(&v, &[Sink::ToByteVec])[0].out else { continue };
                st.states += 1;
                st.transitions += 2;
                st.validated += 1;
                if let Out::Ok(g) = &(er.dec)(b).out {
                    for (f, x) in rd.fields.iter().zip(g.items()) {
                        if let Some(dflt) = &f.transient {
                            if x != dflt {
                                st.violate(
                                    format!("C14 transient-field-takes-a-value-from-older-data type={}", er.name),
                                    key.clone(),
                                    json!({"written_by": ew.name, "read_by": er.name, "field": f.name, "declared_default": val_json(dflt), "decoded": val_json(x), "bytes": hex(b)}),
                                );
                                return;
                            }
                        }
                    }
                    st.bump("older-data:transient-field-is-default");
                    st.nontrivial += 1;
                }
            }
        });
        run.stats.merge(cs);
    }
    run.stats.add("histories_ending_in_made_transient", hitems.len() as u64);
    run.rule = "every declaration of the universe with transient fields (every position, 1-3 fields) or transient constructors x every value: bytes equal the bytes of the value with transients reset; decode yields the declared defaults (chosen different from every enumerated value); transient constructors give SerializingTransientConstructor naming type and constructor through all six sinks; every distinct history prefix ending in FieldMadeTransient (dynamic driver) encodes and round-trips; for every compiled history with a FieldMadeTransient step, data written by every version before the step and read by every version after it leaves the declared default in the transient field".into();
    run.bounds = json!({"history_depth": depth});
    run.finish()
}
