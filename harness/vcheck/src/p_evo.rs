use crate::common::U;
use bridge::rt::Run;

pub fn extra_for(_prop: &str, _run: &mut Run, _u: &U) -> i32 {
    0
}
