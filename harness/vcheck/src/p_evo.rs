//! Evolution histories: C03 (every writer/reader version pair gives the documented outcome) and
//! the (w, r) parts of C07 (self-delimiting) and C08 (truncation).
use crate::common::{self, U};
use bridge::dynrec::{dyn_decode, dyn_decode_rest, dyn_encode};
use bridge::rt::{hex, par_items, val_json, Run, Stats};
use bridge::{ErrKind, Out, Sink};
use refmodel::evo::{self, EvoErr, History};
use refmodel::spec;
use refmodel::values::{values, Params};
use refmodel::*;
use serde_json::json;
use std::sync::Arc;

#[derive(Clone, Copy, Debug, PartialEq, Eq)]
enum Place {
    Top,
    OuterV0,
    OuterEvolved,
    InVec,
    /// the record is the body of a struct variant of an enum (evolution on enum variants)
    StructVariant,
}

const PLACES: [Place; 5] = [Place::Top, Place::OuterV0, Place::OuterEvolved, Place::InVec, Place::StructVariant];

fn fld(name: &str, ty: Ty) -> FieldDescr {
    FieldDescr { name: name.into(), is_option: matches!(ty, Ty::Opt(_)), ty, transient: None, default: None }
}

fn place_ty(p: Place, inner: Ty) -> Ty {
    match p {
        Place::Top => inner,
        Place::OuterV0 => Ty::Record(Arc::new(RecordDescr {
            name: "OuterV0".into(),
            steps: vec![],
            fields: vec![fld("pre", Ty::U8), fld("x", inner), fld("post", Ty::U16)],
        })),
        Place::OuterEvolved => {
            let mut q = fld("q", Ty::Str);
            q.default = Some(Val::s("qd"));
            Ty::Record(Arc::new(RecordDescr {
                name: "OuterEv".into(),
                steps: vec![Step::Added("q".into())],
                fields: vec![fld("pre", Ty::U8), fld("x", inner), q, fld("post", Ty::U16)],
            }))
        }
        Place::InVec => Ty::Tuple(vec![Ty::Seq(SeqKind::Vec, Box::new(inner)), Ty::U16]),
        Place::StructVariant => {
            let rd = match &inner {
                Ty::Record(rd) => (**rd).clone(),
                o => panic!("variant body must be a record: {o:?}"),
            };
            let unit = VariantDescr { name: "U".into(), transient: false, shape: 0, record: RecordDescr { name: "U".into(), steps: vec![], fields: vec![] } };
            let body = VariantDescr { name: "V".into(), transient: false, shape: 2, record: rd };
            // followed by a sentinel, so that a variant body that consumes too much or too little is seen
            Ty::Tuple(vec![Ty::Enum(Arc::new(EnumDescr { name: "HE".into(), sorted: false, variants: vec![unit, body] })), Ty::U16])
        }
    }
}

fn place_val(p: Place, inner: &[Val]) -> Val {
    match p {
        Place::Top => inner[0].clone(),
        Place::OuterV0 => Val::Rec(vec![Val::U(0xaa), inner[0].clone(), Val::U(0xbbcc)]),
        Place::OuterEvolved => Val::Rec(vec![Val::U(0xaa), inner[0].clone(), Val::s("Q"), Val::U(0xbbcc)]),
        Place::InVec => Val::Tuple(vec![Val::Seq(inner.to_vec()), Val::U(0xbbcc)]),
        Place::StructVariant => Val::Tuple(vec![Val::Enum(1, inner[0].items().to_vec()), Val::U(0xbbcc)]),
    }
}

fn err_matches(exp: &EvoErr, got: &ErrKind) -> bool {
    match (exp, got) {
        (EvoErr::FieldRemoved(f), ErrKind::FieldRemovedInSerializedVersion(g)) => f == g,
        (EvoErr::SerializedAsNone(f), ErrKind::NonOptionalFieldSerializedAsNone(g)) => f == g,
        _ => false,
    }
}

fn model_err_matches(exp: &EvoErr, got: &DecErr) -> bool {
    match (exp, got) {
        (EvoErr::FieldRemoved(f), DecErr::FieldRemoved(g)) => f == g,
        (EvoErr::SerializedAsNone(f), DecErr::SerializedAsNone(g)) => f == g,
        _ => false,
    }
}

fn hist_label(h: &History) -> String {
    let base: Vec<String> = h.base.iter().map(|b| format!("{}:{}", b.name, bridge::rt::ty_name(&b.ty))).collect();
    let steps: Vec<String> = h
        .steps
        .iter()
        .map(|s| match s {
            evo::HStep::Add { name, ty, first, .. } => {
                format!("Add({name}:{}{})", bridge::rt::ty_name(ty), if *first { ",first" } else { "" })
            }
            evo::HStep::MakeOptional(n) => format!("Opt({n})"),
            evo::HStep::Remove(n) => format!("Rm({n})"),
            evo::HStep::MakeTransient { name, .. } => format!("Tr({name})"),
        })
        .collect();
    format!("[{}] {}", base.join(","), steps.join("."))
}

struct Item {
    /// index in the list of histories
    hi: usize,
    w: usize,
    r: usize,
}

fn small_params(thorough: bool) -> Params {
    Params { leaf_k: if thorough { 4 } else { 3 }, seq_len: 1, elem_k: 2, cap: if thorough { 48 } else { 24 }, rec_depth: 1 }
}

/// one (history, w, r): all values of version w, all placements, through the dynamic driver
fn explore_dyn(prop: &str, h: &History, hi: usize, w: usize, r: usize, st: &mut Stats, thorough: bool, only: &Option<String>) {
    let dw = h.decl_at(w);
    let dr = h.decl_at(r);
    let tw = Ty::Record(Arc::new(dw));
    let tr = Ty::Record(Arc::new(dr));
    let vals = values(&tw, &small_params(thorough));
    let label = hist_label(h);
    for (vi, v) in vals.iter().enumerate() {
        let expected = h.expected(w, r, v);
        for p in PLACES {
            let key = format!("dyn:{hi}/w{w}/r{r}/v{vi}/{p:?}");
            if let Some(k) = only {
                if *k != key {
                    continue;
                }
            }
            st.states += 1;
            let gap = p != Place::Top && h.framing_gap(w, r);
            // second element of the vector placement: the next value of the domain
            let inner: Vec<Val> = if p == Place::InVec { vec![v.clone(), vals[(vi + 1) % vals.len()].clone()] } else { vec![v.clone()] };
            let exp_all: Result<Vec<Val>, EvoErr> = inner.iter().map(|x| h.expected(w, r, x)).collect();
            let ow = place_ty(p, tw.clone());
            let or = place_ty(p, tr.clone());
            let wv = place_val(p, &inner);
            let enc = dyn_encode(&ow, &wv);
            st.transitions += 1;
            let mut bad = |st: &mut Stats, what: &str, cls: String, detail: serde_json::Value| {
                st.violate(
                    format!("{prop} {what} history={label} w={w} r={r} place={p:?} outcome={cls}"),
                    key.clone(),
                    json!({"history": label, "w": w, "r": r, "placement": format!("{p:?}"), "value": val_json(v), "expected": format!("{expected:?}").chars().take(300).collect::<String>(), "detail": detail}),
                );
            };
            let bytes = match enc {
                Out::Ok(b) => b,
                o => {
                    // a writer that fails on a legal history is C03's finding; C07 / C08 speak
                    // about the bytes that were written and have nothing to look at here
                    if prop == "C03" || o.is_panic() {
                        bad(st, "writer-fails", o.class(), json!({"result": format!("{o:?}")}));
                    }
                    continue;
                }
            };
            // the model writes the same bytes (C03; the other two properties take the bytes the
            // library wrote as they are)
            st.validated += 1;
            match ref_encode(&ow, &wv) {
                Ok(mb) if mb.b == bytes => {}
                other => {
                    if prop == "C03" {
                        bad(st, "writer-bytes-differ-from-model", "Ok".into(), json!({"library": hex(&bytes), "model": other.map(|b| hex(&b.b)).map_err(|e| format!("{e:?}"))}));
                        continue;
                    }
                }
            }
            match prop {
                "C03" => {
                    let got = dyn_decode(&or, &bytes);
                    st.transitions += 1;
                    if gap {
                        // DESIGN section 9: no expected value; executed for totality only
                        st.bump("excluded(section 9)");
                        if got.is_panic() {
                            bad(st, "panic-in-excluded-combination", "Panic".into(), json!({"bytes": hex(&bytes), "result": format!("{got:?}")}));
                        }
                        continue;
                    }
                    st.validated += 1;
                    let model = ref_decode(&or, &bytes);
                    match &exp_all {
                        Ok(xs) => {
                            let ev = place_val(p, xs);
                            let ok = matches!(&got, Out::Ok(g) if canon(&or, g) == canon(&or, &ev));
                            if !ok {
                                bad(st, "wrong-outcome", got.class(), json!({"bytes": hex(&bytes), "got": format!("{got:?}").chars().take(400).collect::<String>(), "expected_value": val_json(&ev)}));
                                continue;
                            }
                            if !matches!(&model, Ok((m, n)) if canon(&or, m) == canon(&or, &ev) && (*n == bytes.len() || h.framing_gap(w, r))) {
                                bad(st, "model-reader-disagrees-with-oracle", "Ok".into(), json!({"bytes": hex(&bytes), "model": format!("{model:?}").chars().take(300).collect::<String>()}));
                                continue;
                            }
                            st.bump(if w == r { "same-version" } else if xs[0] == inner[0] { "cross:identity" } else { "cross:converted" });
                            st.nontrivial += (w != r) as u64;
                        }
                        Err(e) => {
                            let ok = matches!(&got, Out::Err(g) if err_matches(e, g));
                            if !ok {
                                bad(st, "wrong-error", got.class(), json!({"bytes": hex(&bytes), "got": format!("{got:?}").chars().take(300).collect::<String>()}));
                                continue;
                            }
                            if !matches!(&model, Err(me) if model_err_matches(e, me)) {
                                bad(st, "model-reader-disagrees-with-oracle", "Err".into(), json!({"bytes": hex(&bytes), "model": format!("{model:?}").chars().take(300).collect::<String>()}));
                                continue;
                            }
                            st.bump(match e {
                                EvoErr::FieldRemoved(_) => "cross:FieldRemoved",
                                EvoErr::SerializedAsNone(_) => "cross:SerializedAsNone",
                            });
                            st.nontrivial += 1;
                        }
                    }
                    if vi == 0 && p == Place::OuterEvolved && w != r {
                        st.sample(json!({"history": label, "w": w, "r": r, "value": val_json(v), "bytes": hex(&bytes), "expected": format!("{expected:?}")}));
                    }
                }
                "C07" => {
                    // exact consumption: stored version >= 1, or version 0 without removals
                    if h.framing_gap(w, r) || exp_all.is_err() {
                        st.bump("not-claimed");
                        continue;
                    }
                    let ev = place_val(p, exp_all.as_ref().unwrap());
                    for s in [vec![], vec![0x01], vec![0xff; 5], bytes.iter().copied().take(16).collect::<Vec<u8>>()] {
                        let mut input = bytes.clone();
                        input.extend_from_slice(&s);
                        let (got, rest) = dyn_decode_rest(&or, &input);
                        st.transitions += 1;
                        st.validated += 1;
                        let ok = matches!(&got, Out::Ok(g) if canon(&or, g) == canon(&or, &ev)) && rest.as_deref() == Some(&s[..]);
                        if !ok {
                            bad(st, "not-self-delimiting", got.class(), json!({"encoding": hex(&bytes), "suffix": hex(&s), "unread": rest.map(|r| hex(&r)), "got": format!("{got:?}").chars().take(300).collect::<String>()}));
                            break;
                        }
                        st.bump("exact");
                    }
                    st.nontrivial += (w != r) as u64;
                }
                "C08" => {
                    if w == 0 && w != r {
                        st.bump("not-claimed(version 0 under another definition)");
                        continue;
                    }
                    for k in 0..bytes.len() {
                        let got = dyn_decode(&or, &bytes[..k]);
                        st.transitions += 1;
                        st.validated += 1;
                        if !matches!(got, Out::Err(_)) {
                            bad(st, "prefix-not-rejected", got.class(), json!({"encoding": hex(&bytes), "cut": k, "got": format!("{got:?}").chars().take(300).collect::<String>()}));
                            break;
                        }
                        st.bump("Err");
                    }
                    st.nontrivial += (w != r) as u64;
                }
                _ => unreachable!(),
            }
        }
    }
}

/// compiled histories: derived types, top level plus a trailing sentinel
fn explore_compiled(prop: &str, u: &U, hi: usize, w: usize, r: usize, st: &mut Stats, thorough: bool, only: &Option<String>) {
    let h = &u.spec.histories[hi];
    let ew = u.get(&u.spec.hist_decl[hi][w]);
    let er = u.get(&u.spec.hist_decl[hi][r]);
    let label = hist_label(h);
    let vals = values(&ew.ty, &small_params(thorough));
    for (vi, v) in vals.iter().enumerate() {
        let key = format!("derived:{hi}/w{w}/r{r}/v{vi}");
        if let Some(k) = only {
            if *k != key {
                continue;
            }
        }
        st.states += 1;
        let expected = h.expected(w, r, v);
        let mut bad = |st: &mut Stats, what: &str, cls: String, detail: serde_json::Value| {
            st.violate(
                format!("{prop} derived {what} history={label} w={w} r={r} outcome={cls}"),
                key.clone(),
                json!({"history": label, "writer_type": ew.name, "reader_type": er.name, "value": val_json(v), "expected": format!("{expected:?}").chars().take(300).collect::<String>(), "detail": detail}),
            );
        };
        let enc = &(ew.enc)(v, &[Sink::ToByteVec])[0];
        st.transitions += 1;
        let bytes = match &enc.out {
            Out::Ok(b) => b.clone(),
            o => {
                if prop == "C03" || o.is_panic() {
                    bad(st, "writer-fails", o.class(), json!({"result": format!("{o:?}")}));
                }
                continue;
            }
        };
        // derived impl == dynamic driver on the writer side
        let dynb = dyn_encode(&ew.ty, v);
        st.validated += 1;
        if dynb != Out::Ok(bytes.clone()) && prop == "C03" {
            bad(st, "derived-and-dynamic-driver-bytes-differ", "Ok".into(), json!({"derived": hex(&bytes), "driver": format!("{dynb:?}")}));
            continue;
        }
        match prop {
            "C03" => {
                let sentinel = [0xaau8, 0xbb];
                let mut input = bytes.clone();
                input.extend_from_slice(&sentinel);
                let d = (er.dec_ctx)(&input);
                st.transitions += 1;
                st.validated += 1;
                let gap = h.framing_gap(w, r);
                match &expected {
                    Ok(ev) => {
                        let ok = matches!(&d.out, Out::Ok(g) if canon(&er.ty, g) == canon(&er.ty, ev));
                        if !ok {
                            bad(st, "wrong-outcome", d.out.class(), json!({"bytes": hex(&bytes), "got": format!("{:?}", d.out).chars().take(400).collect::<String>()}));
                            continue;
                        }
                        if !gap && d.rest.as_deref() != Some(&sentinel[..]) {
                            bad(st, "following-data-disturbed", "Ok".into(), json!({"bytes": hex(&bytes), "unread": d.rest.as_ref().map(|r| hex(r))}));
                            continue;
                        }
                        st.bump(if w == r { "same-version" } else { "cross:value" });
                    }
                    Err(e) => {
                        let ok = matches!(&d.out, Out::Err(g) if err_matches(e, g));
                        if !ok {
                            bad(st, "wrong-error", d.out.class(), json!({"bytes": hex(&bytes), "got": format!("{:?}", d.out).chars().take(300).collect::<String>()}));
                            continue;
                        }
                        st.bump("cross:error");
                    }
                }
                // derived reader == dynamic driver reader
                let dd = dyn_decode(&er.ty, &bytes);
                let same = match (&d.out, &dd) {
                    (Out::Ok(a), Out::Ok(b)) => canon(&er.ty, a) == canon(&er.ty, b),
                    (Out::Err(a), Out::Err(b)) => a == b,
                    _ => false,
                };
                st.validated += 1;
                if !same {
                    bad(st, "derived-and-dynamic-driver-results-differ", d.out.class(), json!({"bytes": hex(&bytes), "derived": format!("{:?}", d.out).chars().take(200).collect::<String>(), "driver": format!("{dd:?}").chars().take(200).collect::<String>()}));
                    continue;
                }
                st.nontrivial += (w != r) as u64;
                if vi == 0 && w != r {
                    st.sample(json!({"derived_history": label, "writer": ew.name, "reader": er.name, "bytes": hex(&bytes), "expected": format!("{expected:?}")}));
                }
            }
            "C07" => {
                if h.framing_gap(w, r) || expected.is_err() {
                    st.bump("not-claimed");
                    continue;
                }
                let ev = expected.as_ref().unwrap();
                for s in crate::p_values::suffixes(&bytes) {
                    let mut input = bytes.clone();
                    input.extend_from_slice(&s);
                    let d = (er.dec_ctx)(&input);
                    st.transitions += 1;
                    st.validated += 1;
                    let ok = matches!(&d.out, Out::Ok(g) if canon(&er.ty, g) == canon(&er.ty, ev)) && d.rest.as_deref() == Some(&s[..]);
                    if !ok {
                        bad(st, "not-self-delimiting", d.out.class(), json!({"encoding": hex(&bytes), "suffix": hex(&s), "unread": d.rest.as_ref().map(|r| hex(r))}));
                        break;
                    }
                    st.bump("exact");
                }
                st.nontrivial += (w != r) as u64;
            }
            "C08" => {
                if w == 0 && w != r {
                    st.bump("not-claimed(version 0 under another definition)");
                    continue;
                }
                for k in 0..bytes.len() {
                    let d = (er.dec)(&bytes[..k]);
                    st.transitions += 1;
                    st.validated += 1;
                    if !matches!(d.out, Out::Err(_)) {
                        bad(st, "prefix-not-rejected", d.out.class(), json!({"encoding": hex(&bytes), "cut": k, "got": format!("{:?}", d.out).chars().take(300).collect::<String>()}));
                        break;
                    }
                    st.bump("Err");
                }
                st.nontrivial += (w != r) as u64;
            }
            _ => unreachable!(),
        }
    }
}

/// evolution of one constructor of a compiled enum (unit variant -> struct variant with added
/// fields, ...): every (w, r), every value, followed by a sentinel
fn explore_variant_histories(prop: &str, u: &U, st: &mut Stats, thorough: bool, only: &Option<String>) {
    for (hi, names) in &u.spec.variant_hist {
        let h = &u.spec.histories[*hi];
        let label = hist_label(h);
        for w in 0..names.len() {
            for r in 0..names.len() {
                let ew = u.get(&names[w]);
                let er = u.get(&names[r]);
                let dw = h.decl_at(w);
                let vals = values(&Ty::Record(Arc::new(dw)), &small_params(thorough));
                for (vi, v) in vals.iter().enumerate() {
                    let key = format!("variant:{hi}/w{w}/r{r}/v{vi}");
                    if let Some(k) = only {
                        if *k != key {
                            continue;
                        }
                    }
                    st.states += 1;
                    let expected = h.expected(w, r, v);
                    let wv = Val::Enum(0, v.items().to_vec());
                    let enc = &(ew.enc)(&wv, &[Sink::ToByteVec])[0];
                    st.transitions += 1;
                    let Out::Ok(bytes) = &enc.out else {
                        st.violate(format!("{prop} constructor-evolution writer-fails history={label} w={w}"), key, json!({"result": format!("{:?}", enc.out)}));
                        continue;
                    };
                    let sentinel = [0xaau8, 0xbb];
                    let mut input = bytes.clone();
                    input.extend_from_slice(&sentinel);
                    let d = (er.dec_ctx)(&input);
                    st.transitions += 1;
                    st.validated += 1;
                    let ok = match &expected {
                        Ok(ev) => {
                            let want = Val::Enum(0, ev.items().to_vec());
                            matches!(&d.out, Out::Ok(g) if canon(&er.ty, g) == canon(&er.ty, &want)) && d.rest.as_deref() == Some(&sentinel[..])
                        }
                        Err(e) => matches!(&d.out, Out::Err(g) if err_matches(e, g)),
                    };
                    if prop == "C08" {
                        continue;
                    }
                    if !ok {
                        st.violate(
                            format!("{prop} constructor-evolution history={label} w={w} r={r} outcome={}", d.out.class()),
                            key,
                            json!({"writer_enum": names[w], "reader_enum": names[r], "value": val_json(&wv), "bytes": hex(bytes), "unread": d.rest.as_ref().map(|x| hex(x)), "expected": format!("{expected:?}").chars().take(200).collect::<String>(), "got": format!("{:?}", d.out).chars().take(200).collect::<String>()}),
                        );
                        continue;
                    }
                    st.bump("constructor-evolution");
                    st.nontrivial += (w != r) as u64;
                }
            }
        }
    }
}

pub fn dyn_histories(thorough: bool) -> (Vec<History>, usize) {
    let depth = if thorough { 4 } else { 3 };
    let all = evo::enumerate("D", &spec::history_bases(), &spec::history_add_types(), depth, true);
    let mut hs = evo::maximal(&all, depth);
    if thorough {
        // one level deeper over a reduced alphabet: two bases, two added types, fields added last
        let bases = spec::history_bases();
        let adds = spec::history_add_types();
        let deep = evo::enumerate("D5", &[bases[0].clone(), bases[4].clone()], &adds[..2], 5, false);
        hs.extend(evo::maximal(&deep, 5));
    }
    (hs, depth)
}

fn pairs(len: usize) -> Vec<(usize, usize)> {
    let mut v = Vec::new();
    for w in 0..=len {
        for r in 0..=len {
            v.push((w, r));
        }
    }
    v
}

/// run the evolution exploration for `prop` and merge its statistics into `run`
fn explore(prop: &str, run: &mut Run, u: &U) {
    let thorough = run.thorough();
    let only = run.only.clone();
    // compiled histories (derive macro): the maximal ones cover every (w, r) of their prefixes
    let cdepth = u.spec.histories.iter().map(|h| h.steps.len()).max().unwrap_or(0);
    let mut citems = Vec::new();
    for (hi, h) in u.spec.histories.iter().enumerate() {
        if h.steps.len() == cdepth {
            for (w, r) in pairs(h.steps.len()) {
                citems.push(Item { hi, w, r });
            }
        }
    }
    let skip_compiled = only.as_ref().map(|k| k.starts_with("dyn:")).unwrap_or(false);
    let skip_dyn = only.as_ref().map(|k| k.starts_with("derived:")).unwrap_or(false);
    if !skip_compiled {
        let st = par_items(&citems, Some(bridge::rt::hang_limit()), &|it: &Item| {
            println!("  hang in derived history {} w={} r={}", it.hi, it.w, it.r);
        }, &|it: &Item, st: &mut Stats| explore_compiled(prop, u, it.hi, it.w, it.r, st, thorough, &only));
        run.stats.merge(st);
    }
    if !skip_compiled {
        let mut st = Stats::default();
        explore_variant_histories(prop, u, &mut st, thorough, &only);
        run.stats.merge(st);
    }
    let (dh, ddepth) = dyn_histories(thorough);
    let mut ditems = Vec::new();
    for (hi, h) in dh.iter().enumerate() {
        for (w, r) in pairs(h.steps.len()) {
            ditems.push(Item { hi, w, r });
        }
    }
    if !skip_dyn {
        let st = par_items(&ditems, Some(bridge::rt::hang_limit()), &|it: &Item| {
            println!("  hang in dynamic history {} w={} r={}", it.hi, it.w, it.r);
        }, &|it: &Item, st: &mut Stats| explore_dyn(prop, &dh[it.hi], it.hi, it.w, it.r, st, thorough, &only));
        run.stats.merge(st);
    }
    run.stats.add("derived_maximal_histories", (citems.len() / ((cdepth + 1) * (cdepth + 1)).max(1)) as u64);
    run.stats.add("dynamic_maximal_histories", dh.len() as u64);
    run.extra.insert("history_bounds".into(), json!({"derived_depth": cdepth, "dynamic_depth": ddepth, "placements": ["Top", "OuterV0", "OuterEvolved", "InVec", "StructVariant"], "writer_reader_pairs": "all (w, r) in 0..=depth"}));
}

pub fn extra_for(prop: &str, run: &mut Run, u: &U) -> i32 {
    explore(prop, run, u);
    0
}

pub fn run(tier: &str, only: Option<String>) -> i32 {
    let mut run = Run::new("C03", tier, "model_checking", only);
    let u = common::load();
    explore("C03", &mut run, &u);
    run.rule = "every maximal legal evolution history up to the depth bound x every (writer, reader) version pair x every value of the writer version x five placements (top level, v0 outer record, evolved outer record, Vec, struct variant of an enum); outcome compared with the semantic oracle expected(H,w,r,v) and with the model's byte-level reader; non-trivial = writer and reader versions differ".into();
    run.assumptions = vec![
        "legal histories only (DESIGN 5); embedded + stored-version-0 + removal excluded (DESIGN 9), executed for totality".into(),
        "the dynamic driver calls the real AdtSerializer/AdtDeserializer as the macro expansion does; shown equal to the derived impls on the compiled histories".into(),
    ];
    run.finish()
}
