//! Untrusted input: C05 (decoding is total) and C06 (the decoder never invents content).
//! Same executions, two oracles. Runs as a child process per build profile; the parent merges.
use crate::common::{self, U};
use bridge::rt::{hex, par_items, ty_name, unhex, val_json, Run, Stats};
use bridge::{Entry, Out, Sink};
use refmodel::tamper::{self, ALPHABET};
use refmodel::values::values;
use refmodel::*;
use serde_json::json;
use std::time::Instant;

#[derive(Clone, Debug)]
enum Kind {
    /// all strings of exactly this length over the 12-byte alphabet starting with this byte
    Alpha { len: usize, first: Option<u8> },
    /// all strings of exactly this length over all 256 byte values starting with this byte
    Full { len: usize, first: Option<u8> },
    /// tamperings of the encodings of values [from, to)
    Tamper { from: usize, to: usize, two_point: bool, all_values: bool },
    /// zero-width element containers: count rewrites on the encodings of values [from, to)
    ZeroWidth { from: usize, to: usize },
    /// encodings written by the other versions of the histories this declaration belongs to (values
    /// [0, per_writer) of each), untouched and 1-point tampered: what an older / newer program left
    /// behind, read by this version
    CrossVersion { writers: Vec<String>, per_writer: usize },
    /// encodings written by *future* versions of this declaration that the history grammar does not
    /// contain: any one field removed (not only a trailing one - an older reader copes with that,
    /// because it skips the removed field by name), alone and combined with another field made
    /// optional, in both step orders; values [0, per_writer) of each, untouched and 1-point tampered
    FutureWriters { per_writer: usize },
    /// one explicit input (replay)
    One(Vec<u8>),
}

struct Item<'a> {
    e: &'a Entry,
    kind: Kind,
}

pub fn has_zero_width_seq(ty: &Ty) -> bool {
    match ty {
        Ty::Seq(_, t) | Ty::Array(_, t) => min_size(t) == 0 || has_zero_width_seq(t),
        Ty::Map(_, k, v) => has_zero_width_seq(k) || has_zero_width_seq(v),
        Ty::Opt(t) => has_zero_width_seq(t),
        Ty::Res(a, b) => has_zero_width_seq(a) || has_zero_width_seq(b),
        Ty::Tuple(ts) => ts.iter().any(has_zero_width_seq),
        Ty::Record(rd) => rd.fields.iter().any(|f| has_zero_width_seq(&f.ty)),
        Ty::Enum(ed) => ed.variants.iter().any(|v| v.record.fields.iter().any(|f| has_zero_width_seq(&f.ty))),
        _ => false,
    }
}

fn profile() -> &'static str {
    if cfg!(debug_assertions) {
        "checked(overflow-checks+debug-assertions)"
    } else {
        "plain-release"
    }
}

fn panic_site(msg: &str) -> String {
    // "message @ file:line"
    let (m, loc) = msg.rsplit_once(" @ ").unwrap_or((msg, "?"));
    let m: String = m.chars().filter(|c| !c.is_ascii_digit()).take(60).collect();
    format!("at={loc} msg={m}")
}

fn alloc_bound(input_len: usize) -> usize {
    std::cmp::max(64 * 1024, 16 * input_len)
}

fn run_input(prop: &str, e: &Entry, input: &[u8], origin: &str, st: &mut Stats) {
    st.states += 1;
    let d = (e.dec)(input);
    st.transitions += 1;
    let key = format!("{}|{}", e.name, hex(input));
    match prop {
        "C05" => {
            st.bump(&d.out.class());
            match &d.out {
                Out::Panic(msg) => {
                    st.violate(
                        format!("C05 panic {}", panic_site(msg)),
                        key,
                        json!({"type": e.name, "input": hex(input), "origin": origin, "panic": msg, "profile": profile()}),
                    );
                }
                _ => {
                    if d.max_alloc > alloc_bound(input.len()) {
                        st.violate(
                            if origin.starts_with("zero-width") || has_zero_width_seq(&e.ty) {
                                "C05 zero-width-elements: allocation proportional to the stored count, not to the input".to_string()
                            } else {
                                format!("C05 allocation type={} request>=2^{}", e.name, usize::BITS - 1 - d.max_alloc.leading_zeros())
                            },
                            key,
                            json!({"type": e.name, "input": hex(input), "origin": origin, "largest_request": d.max_alloc, "bound": alloc_bound(input.len()), "profile": profile()}),
                        );
                    } else {
                        st.nontrivial += 1;
                        if st.samples.len() < 2 && origin != "alphabet" && input.len() >= 3 {
                            st.sample(json!({"type": e.name, "input": hex(input), "origin": origin, "outcome": d.out.class(), "largest_allocation_request": d.max_alloc, "profile": profile()}));
                        }
                    }
                }
            }
        }
        "C06" => match &d.out {
            Out::Ok(v) => {
                st.validated += 1;
                let m = ref_decode(&e.ty, input);
                match m {
                    Ok((mv, _)) => {
                        if canon(&e.ty, &mv) == canon(&e.ty, v) {
                            st.bump("Ok:agrees-with-strict-reference");
                            st.nontrivial += 1;
                            if st.samples.len() < 2 && origin != "alphabet" {
                                st.sample(json!({"type": e.name, "input": hex(input), "origin": origin, "value": val_json(v)}));
                            }
                        } else {
                            st.violate(
                                format!("C06 value-differs-from-format type={}", e.name),
                                key,
                                json!({"type": e.name, "descr": ty_name(&e.ty), "input": hex(input), "origin": origin, "library": val_json(v), "reference": val_json(&mv), "profile": profile()}),
                            );
                        }
                    }
                    Err(DecErr::Declined) => st.bump("Ok:reference-declined(work bound)"),
                    Err(me) => {
                        let mk = format!("{me:?}");
                        let mk: String = mk.split(['(', '{', ' ']).next().unwrap_or("").to_string();
                        st.violate(
                            format!("C06 accepted-but-format-rejects type={} reference={mk}", e.name),
                            key,
                            json!({"type": e.name, "descr": ty_name(&e.ty), "input": hex(input), "origin": origin, "library": val_json(v), "reference_error": format!("{me:?}"), "profile": profile()}),
                        );
                    }
                }
            }
            o => st.bump(&o.class()),
        },
        _ => unreachable!(),
    }
}

fn run_item(prop: &str, it: &Item, st: &mut Stats, thorough: bool) {
    let e = it.e;
    match &it.kind {
        Kind::One(b) => run_input(prop, e, b, "replay", st),
        Kind::Alpha { len, first } => {
            let prefix: Vec<u8> = first.iter().copied().collect();
            tamper::strings_with_prefix(&ALPHABET, &prefix, *len, &mut |s| run_input(prop, e, s, "alphabet", st));
        }
        Kind::Full { len, first } => {
            let all: Vec<u8> = (0..=255u8).collect();
            let prefix: Vec<u8> = first.iter().copied().collect();
            tamper::strings_with_prefix(&all, &prefix, *len, &mut |s| run_input(prop, e, s, "all-bytes", st));
        }
        Kind::Tamper { from, to, two_point, all_values } => {
            let p = common::params_for(thorough);
            let vals = values(&e.ty, &p);
            let mut prev: Option<Vec<u8>> = None;
            for v in vals.iter().skip(*from).take(to - from) {
                let r = &(e.enc)(v, &[Sink::ToByteVec])[0];
                let Out::Ok(b) = &r.out else { continue };
                if b.len() > 96 {
                    st.add("long_encodings_skipped_for_tampering", 1);
                    continue;
                }
                st.add("valid_encodings_tampered", 1);
                tamper::one_point(b, &ALPHABET, &mut |s| run_input(prop, e, s, "1-point", st));
                if *all_values && b.len() <= 48 {
                    tamper::one_point_all_values(b, &mut |s| run_input(prop, e, s, "1-point(all byte values)", st));
                }
                if let Ok(mb) = ref_encode(&e.ty, &r.actual) {
                    if mb.b == *b {
                        tamper::framing_rewrites(b, &mb.marks, &mut |s, _, _| run_input(prop, e, s, "framing-rewrite", st));
                    }
                }
                if let Some(pb) = &prev {
                    if pb.len() <= 24 && b.len() <= 24 {
                        tamper::splices(pb, b, &mut |s| run_input(prop, e, s, "splice", st));
                    }
                }
                if *two_point && b.len() <= 14 {
                    tamper::two_point(b, &ALPHABET, &mut |s| run_input(prop, e, s, "2-point", st));
                }
                prev = Some(b.clone());
            }
        }
        Kind::CrossVersion { writers, per_writer } => {
            let p = common::params_for(thorough);
            for w in writers {
                let wty = refmodel::spec::decl_ty(w, universe::THOROUGH);
                for v in values(&wty, &p).iter().take(*per_writer) {
                    let Ok(mb) = ref_encode(&wty, v) else { continue };
                    let b = &mb.b;
                    if b.len() > 96 {
                        continue;
                    }
                    st.add("other_version_encodings_read", 1);
                    run_input(prop, e, b, "other-version", st);
                    tamper::one_point(b, &ALPHABET, &mut |s| run_input(prop, e, s, "other-version 1-point", st));
                }
            }
        }
        Kind::FutureWriters { per_writer } => {
            let p = common::params_for(thorough);
            let Ty::Record(rd) = &e.ty else { return };
            for w in future_writers(rd) {
                let wty = Ty::Record(std::sync::Arc::new(w));
                for v in values(&wty, &p).iter().take(*per_writer) {
                    let Ok(mb) = ref_encode(&wty, v) else { continue };
                    let b = &mb.b;
                    if b.len() > 96 {
                        continue;
                    }
                    st.add("future_version_encodings_read", 1);
                    run_input(prop, e, b, "future-version", st);
                    tamper::one_point(b, &ALPHABET, &mut |s| run_input(prop, e, s, "future-version 1-point", st));
                }
            }
        }
        Kind::ZeroWidth { from, to } => {
            let p = common::params_for(thorough);
            // the costly counts only on the first values (the loop depends on the count alone)
            let all_counts: [i64; 11] = [0, 1, 2, 3, 4, 1 << 7, 1 << 14, 1 << 21, -2, -3, i32::MIN as i64];
            let cheap_counts: [i64; 9] = [0, 1, 2, 3, 4, 1 << 7, -2, -3, i32::MIN as i64];
            let counts: &[i64] = if *from == 0 { &all_counts } else { &cheap_counts };
            for v in values(&e.ty, &p).iter().skip(*from).take(to - from) {
                let actual = (e.enc)(v, &[Sink::ToByteVec])[0].actual.clone();
                let (mb, used) = match ref_encode_forms(&e.ty, &actual, Forms::default()) {
                    Ok(x) => x,
                    Err(_) => continue,
                };
                // canonical and all-unknown-size forms
                let mut encs = vec![mb];
                if let Ok((ub, _)) = ref_encode_forms(&e.ty, &actual, Forms { seq_unknown: vec![true; used.seq_points], ..Default::default() }) {
                    encs.push(ub);
                }
                for enc in encs {
                    run_input(prop, e, &enc.b, "zero-width:valid", st);
                    for m in enc.marks.iter().filter(|m| m.kind == MarkKind::Count) {
                        for &c in counts {
                            let mut t = enc.b[..m.off].to_vec();
                            t.extend(refmodel::wire::vari(c as i32));
                            t.extend_from_slice(&enc.b[m.off + m.len..]);
                            let t0 = Instant::now();
                            let before = st.hist.get("Ok").copied().unwrap_or(0);
                            run_input(prop, e, &t, "zero-width:count-rewrite", st);
                            let ms = t0.elapsed().as_millis();
                            let accepted = st.hist.get("Ok").copied().unwrap_or(0) > before;
                            // deterministic criterion: a count far beyond the input length was
                            // honoured, i.e. the loop ran `count` times without consuming input
                            if prop == "C05" && accepted && c >= (1 << 14) {
                                st.violate(
                                    "C05 zero-width-elements: stored count honoured without consuming input".to_string(),
                                    format!("{}|{}", e.name, hex(&t)),
                                    json!({"type": e.name, "input": hex(&t), "count": c, "millis": ms as u64, "profile": profile()}),
                                );
                            }
                        }
                    }
                }
            }
        }
    }
}

/// declarations a later version of the program could have: one serialized field removed (at any
/// position), alone or together with another field made optional (both step orders)
fn future_writers(rd: &RecordDescr) -> Vec<RecordDescr> {
    let live: Vec<usize> = (0..rd.fields.len()).filter(|i| rd.fields[*i].transient.is_none()).collect();
    let mut out = Vec::new();
    for &i in &live {
        let gone = rd.fields[i].name.clone();
        let mut w1 = rd.clone();
        w1.fields.remove(i);
        w1.steps.push(Step::Removed(gone.clone()));
        out.push(w1.clone());
        for g in w1.fields.iter().enumerate().filter(|(_, g)| g.transient.is_none() && !g.is_option && !matches!(g.ty, Ty::Opt(_))).map(|(k, _)| k).collect::<Vec<_>>() {
            for removed_first in [true, false] {
                let mut w = rd.clone();
                w.fields.remove(i);
                let name = w.fields[g].name.clone();
                w.fields[g].ty = Ty::Opt(Box::new(w.fields[g].ty.clone()));
                w.fields[g].is_option = true;
                if let Some(d) = w.fields[g].default.take() {
                    w.fields[g].default = Some(Val::Opt(Some(Box::new(d))));
                }
                if removed_first {
                    w.steps.push(Step::Removed(gone.clone()));
                    w.steps.push(Step::MadeOptional(name));
                } else {
                    w.steps.push(Step::MadeOptional(name));
                    w.steps.push(Step::Removed(gone.clone()));
                }
                out.push(w);
            }
        }
    }
    out
}

/// the largest witness: five input bytes, 2^31-1 loop iterations (run single-threaded)
fn large_zero_width_witness(u: &U, st: &mut Stats) {
    let Some(i) = u.by_name.get("Vec<()>") else { return };
    let e = &u.entries[*i];
    let mut input = refmodel::wire::vari(i32::MAX);
    input.push(0);
    let t0 = Instant::now();
    let d = (e.dec_discard)(&input);
    let ms = t0.elapsed().as_millis() as u64;
    st.states += 1;
    st.transitions += 1;
    st.bump(&format!("large-witness:{}", d.out.class()));
    if d.out.is_ok() || d.out.is_panic() {
        st.violate(
            if d.out.is_ok() {
                "C05 zero-width-elements: stored count honoured without consuming input".to_string()
            } else {
                "C05 panic in the large zero-width witness".to_string()
            },
            format!("Vec<()>|{}", hex(&input)),
            json!({"type": "Vec<()>", "input": hex(&input), "millis": ms, "result": d.out.class(), "profile": profile(), "note": "five input bytes, 2^31-1 iterations of a loop that consumes no input"}),
        );
    }
}

fn build_items<'a>(u: &'a U, run: &Run) -> Vec<Item<'a>> {
    let thorough = run.thorough();
    let mut items = Vec::new();
    if let Some(k) = &run.only {
        if let Some((t, h)) = k.split_once('|') {
            items.push(Item { e: u.get(t), kind: Kind::One(unhex(h)) });
            return items;
        }
    }
    // a selection of types that contains every decoder gets the deepest raw sweep
    let deep_names: Vec<String> = deep_targets(u);
    let p = common::params_for(thorough);
    for e in &u.entries {
        if e.tags.contains(&"boundary") {
            continue;
        }
        if has_zero_width_seq(&e.ty) {
            let n = std::cmp::min(values(&e.ty, &p).len(), 40);
            let mut from = 0;
            while from < n {
                let to = std::cmp::min(n, from + 2);
                items.push(Item { e, kind: Kind::ZeroWidth { from, to } });
                from = to;
            }
            continue;
        }
        let deep = deep_names.iter().any(|n| *n == e.name);
        let alpha_len = match (thorough, deep) {
            (false, false) => 4,
            (false, true) => 5,
            (true, false) => 5,
            (true, true) => 7,
        };
        for len in 0..=alpha_len {
            if len >= 4 {
                for a in ALPHABET {
                    items.push(Item { e, kind: Kind::Alpha { len, first: Some(a) } });
                }
            } else {
                items.push(Item { e, kind: Kind::Alpha { len, first: None } });
            }
        }
        let full_len = if thorough && deep { 3 } else { 2 };
        for len in 1..=full_len {
            if len >= 3 {
                for a in 0..=255u8 {
                    items.push(Item { e, kind: Kind::Full { len, first: Some(a) } });
                }
            } else {
                items.push(Item { e, kind: Kind::Full { len, first: None } });
            }
        }
        if e.tags.contains(&"history") {
            let mut writers: Vec<String> = Vec::new();
            for names in &u.spec.hist_decl {
                if names.iter().any(|n| *n == e.name) {
                    for n in names {
                        if *n != e.name && !writers.contains(n) {
                            writers.push(n.clone());
                        }
                    }
                }
            }
            items.push(Item { e, kind: Kind::FutureWriters { per_writer: if thorough { 24 } else { 8 } } });
            // one work item per few writers
            for c in writers.chunks(4) {
                items.push(Item { e, kind: Kind::CrossVersion { writers: c.to_vec(), per_writer: if thorough { 48 } else { 12 } } });
            }
        }
        let nvals = values(&e.ty, &p).len();
        let cap = if thorough { nvals } else { std::cmp::min(nvals, 64) };
        let mut from = 0;
        while from < cap {
            let to = std::cmp::min(cap, from + 8);
            items.push(Item { e, kind: Kind::Tamper { from, to, two_point: thorough && deep, all_values: thorough || deep } });
            from = to;
        }
    }
    // `--only part:other-version`: just the inputs written by other versions and the nested-evolved
    // declarations (a sub-run of the same sweep, for a quick look at those parts at thorough scale)
    if run.only.as_deref() == Some("part:other-version") {
        items.retain(|it| matches!(it.kind, Kind::CrossVersion { .. } | Kind::FutureWriters { .. }) || it.e.tags.contains(&"evolved_nested"));
    }
    items
}

/// every leaf, every constructor over a narrow and a wide element, derived v0 / evolved /
/// nested-evolved / enum / recursive records, dedup strings
pub fn deep_targets(u: &U) -> Vec<String> {
    let mut v: Vec<String> = refmodel::spec::leaves().iter().map(|l| l.rust.to_string()).collect();
    for n in [
        "Option<u8>", "Option<String>", "Vec<u8>", "Vec<u16>", "Vec<String>", "[u8; 3]", "[u16; 2]", "[String; 2]", "(u8,)",
        "(String,)", "(u8, String)", "(u8, String, bool)", "Result<u8, String>", "Result<String, u8>",
        "std::collections::HashSet<u8>", "std::collections::BTreeSet<String>", "std::collections::LinkedList<u16>",
        "std::collections::HashMap<u8, String>", "std::collections::BTreeMap<String, u8>", "std::boxed::Box<String>",
        "std::rc::Rc<u16>", "std::sync::Arc<u8>", "Vec<Vec<u8>>", "Option<Option<u8>>", "Vec<Option<String>>",
        "Vec<desert::DeduplicatedString>", "Option<[u8; 2]>", "Vec<(u8, String)>", "N0", "N1", "NE",
    ] {
        v.push(n.to_string());
    }
    // derived: structs of every one-field shape, a few two/three-field ones, enums of every
    // single kind and some mixed, histories with every kind of step
    for d in &u.spec.decls {
        let pick = match &d.ty {
            Ty::Record(rd) => {
                d.tags.contains(&"one_field")
                    || d.tags.contains(&"recursive")
                    || d.tags.contains(&"evolved_nested")
                    || d.tags.contains(&"dedup_evolved")
                    || d.tags.contains(&"opt_alias")
                    || (d.tags.contains(&"two_fields") && rd.fields.iter().any(|f| matches!(&f.ty, Ty::Record(_)) || f.ty == Ty::DedupStr) && rd.fields.iter().all(|f| f.transient.is_none()))
            }
            Ty::Enum(ed) => ed.variants.len() == 1 || (ed.variants.len() == 2 && ed.sorted && !d.tags.contains(&"extension")),
            _ => false,
        };
        if pick {
            v.push(d.name.clone());
        }
    }
    // histories with at least two steps: an evenly spread selection of at most 60
    let hist: Vec<&String> = u
        .spec
        .decls
        .iter()
        .filter(|d| d.tags.contains(&"history") && matches!(&d.ty, Ty::Record(rd) if rd.steps.len() >= 2))
        .map(|d| &d.name)
        .collect();
    let stride = std::cmp::max(1, hist.len() / 60);
    v.extend(hist.iter().step_by(stride).map(|s| s.to_string()));
    v.retain(|n| u.by_name.contains_key(n));
    v
}

fn stats_to_json(st: &Stats) -> serde_json::Value {
    json!({
        "states": st.states, "transitions": st.transitions, "validated": st.validated, "nontrivial": st.nontrivial,
        "violation_count": st.violation_count, "hist": st.hist, "extra": st.extra, "samples": st.samples,
        "violations": st.violations.iter().map(|v| json!({"fingerprint": v.fingerprint, "key": v.key, "detail": v.detail})).collect::<Vec<_>>(),
    })
}

fn stats_from_json(v: &serde_json::Value) -> Stats {
    let mut st = Stats::default();
    st.states = v["states"].as_u64().unwrap_or(0);
    st.transitions = v["transitions"].as_u64().unwrap_or(0);
    st.validated = v["validated"].as_u64().unwrap_or(0);
    st.nontrivial = v["nontrivial"].as_u64().unwrap_or(0);
    st.violation_count = v["violation_count"].as_u64().unwrap_or(0);
    if let Some(h) = v["hist"].as_object() {
        for (k, x) in h {
            st.hist.insert(k.clone(), x.as_u64().unwrap_or(0));
        }
    }
    if let Some(h) = v["extra"].as_object() {
        for (k, x) in h {
            st.extra.insert(k.clone(), x.as_u64().unwrap_or(0));
        }
    }
    if let Some(a) = v["samples"].as_array() {
        st.samples = a.clone();
    }
    if let Some(a) = v["violations"].as_array() {
        for x in a {
            st.violations.push(bridge::rt::Violation {
                fingerprint: x["fingerprint"].as_str().unwrap_or("").to_string(),
                key: x["key"].as_str().unwrap_or("").to_string(),
                detail: x["detail"].clone(),
            });
        }
    }
    st
}

/// the sweep of one build profile (child process): statistics to `out`
pub fn child(prop: &str, tier: &str, only: Option<String>, out: &str) -> i32 {
    let run = Run::new(prop, tier, "model_checking", only);
    bridge::rt::set_journal(&format!("{out}.journal"));
    let u = common::load();
    let thorough = run.thorough();
    let items = build_items(&u, &run);
    let mut st = par_items(
        &items,
        Some(bridge::rt::hang_limit()),
        &|it: &Item| {
            // a case that does not finish is a violation of C05 whatever property is being run
            println!("  fingerprint: C05 hang type={} shard={:?} profile={}", it.e.name, it.kind, profile());
            let _ = std::fs::create_dir_all("/verif/replays");
            let _ = std::fs::write(
                "/verif/replays/C05-hang.json",
                serde_json::to_string_pretty(&json!({"property": "C05", "fingerprint": format!("C05 hang type={}", it.e.name), "only": it.e.name, "detail": format!("{:?}", it.kind)})).unwrap(),
            );
        },
        &|it: &Item, st: &mut Stats| run_item(prop, it, st, thorough),
    );
    if prop == "C05" && run.only.is_none() {
        large_zero_width_witness(&u, &mut st);
    }
    if prop == "C05" {
        // the low-level readers: every operation sequence with boundary and extreme counts
        let ops = crate::p_inputs::explore("C05", if thorough { 4 } else { 3 }, &run.only);
        st.merge(ops);
    }
    st.add(&format!("work_items[{}]", profile()), items.len() as u64);
    let types: std::collections::BTreeSet<&str> = items.iter().map(|i| i.e.name.as_str()).collect();
    st.add("target_types", types.len() as u64);
    std::fs::write(out, serde_json::to_string(&stats_to_json(&st)).unwrap()).expect("write child stats");
    0
}

pub fn run(prop: &str, tier: &str, only: Option<String>) -> i32 {
    let mut run = Run::new(prop, tier, "model_checking", only.clone());
    let me = std::env::current_exe().expect("own path");
    let plain = std::env::var("VCHECK_PLAIN").ok().filter(|s| !s.is_empty());
    let mut profiles: Vec<(String, std::path::PathBuf)> = vec![("checked".into(), me)];
    match plain {
        Some(p) => profiles.push(("plain".into(), p.into())),
        None => run.caps_hit.push("plain-release profile binary not provided (VCHECK_PLAIN): only the overflow-checked build was swept".into()),
    }
    let mut died: Vec<String> = Vec::new();
    for (name, bin) in &profiles {
        let out = format!("/verif/.child-{prop}-{name}.json");
        let _ = std::fs::remove_file(&out);
        let mut cmd = std::process::Command::new(bin);
        cmd.arg(prop).arg("--tier").arg(tier).arg("--child-out").arg(&out);
        if let Some(k) = &only {
            cmd.arg("--only").arg(k);
        }
        let mut ch = cmd.spawn().expect("spawn child");
        let limit = std::time::Duration::from_secs(if tier == "thorough" { 6 * 3600 } else { 30 * 60 });
        let Some(status) = bridge::rt::wait_with_timeout(&mut ch, limit) else {
            println!("  fingerprint: C05 hang: the sweep of profile {name} did not finish within {limit:?} and was killed");
            return 1;
        };
        match status.code() {
            Some(0) => {
                let v: serde_json::Value = serde_json::from_str(&std::fs::read_to_string(&out).expect("child stats")).expect("child stats json");
                run.stats.merge(stats_from_json(&v));
                let _ = std::fs::remove_file(&out);
                let _ = std::fs::remove_file(format!("{out}.journal"));
            }
            Some(1) => {
                // the child's watchdog fired: it printed the VIOLATION line itself
                println!("[{prop} {tier}] profile {name}: a case did not terminate (see above)");
                return 1;
            }
            other => {
                // what the child had found before it died
                for v in bridge::rt::read_journal(&format!("{out}.journal")) {
                    run.stats.violate(v.fingerprint, v.key, v.detail);
                }
                // the sweep process itself died (abort, stack overflow, OOM kill): for C05 that is
                // a violation; either way the other profile is still swept
                if prop == "C05" {
                    run.stats.violate(
                        format!("C05 abort profile={name} status={other:?} ({status})"),
                        String::new(),
                        json!({"profile": name, "status": format!("{status}"), "note": "the sweep process died; re-run with VERIF_THREADS=1 to localise"}),
                    );
                } else {
                    died.push(format!("sweep child for profile {name} died: {status}"));
                }
            }
        }
    }
    if !died.is_empty() && run.stats.violation_count == 0 {
        eprintln!("MACHINERY: {}", died.join("; "));
        return 2;
    }
    for d in &died {
        run.caps_hit.push(d.clone());
    }
    let thorough = run.thorough();
    run.rule = format!(
        "every table row of the universe x (all byte strings over the 12-byte format alphabet up to length {} ({} for the deep target set), all byte strings over all 256 values up to length {} ({} deep), every 1-point tampering (alphabet bytes: replace, delete, duplicate, insert, truncate; all 256 byte values at every position for the deep set / in the thorough tier) / framing-aware rewrite / splice of every valid encoding{}; for every history declaration also the encodings written by every other version of its histories and by future versions outside the history grammar (any one field removed, alone or with another field made optional), untouched and 1-point tampered), in both build profiles; containers of zero-width elements get the dedicated count enumeration of DESIGN 6 C05. {}",
        if thorough { 5 } else { 4 },
        if thorough { 7 } else { 5 },
        2,
        if thorough { 3 } else { 2 },
        if thorough { ", every 2-point replacement of encodings <= 14 bytes of the deep set" } else { " of the first 64 values per type" },
        if prop == "C05" { "Non-trivial = returned Ok or Err within the allocation bound." } else { "Non-trivial = the library accepted the input and the strict reference decoder assigns it the same value." }
    );
    run.bounds = json!({"alphabet": ALPHABET.iter().map(|b| format!("{b:02x}")).collect::<Vec<_>>(), "profiles": profiles.iter().map(|p| p.0.clone()).collect::<Vec<_>>()});
    run.assumptions = vec![
        "termination is enforced by a per-shard watchdog (120 s quick / 300 s thorough; a shard normally takes milliseconds)".into(),
        "allocation bound: largest single request <= max(64 KiB, 16 x input length), measured by a counting global allocator".into(),
        "C06 is one-directional (library Ok => reference Ok with the same value); the reference grants exactly the leniencies of DESIGN 4.5".into(),
    ];
    run.finish()
}
