fn main(){}
