//! vcheck: one subcommand per property. `vcheck <Cxx> --tier quick|thorough [--only <key>]`
mod common;
mod p_bytes;
mod p_derived;
mod p_evo;
mod p_inputs;
mod p_iso;
mod p_misc;
mod p_tables;
mod p_varint;
mod p_values;

use bridge::err::CountingAlloc;

#[global_allocator]
static ALLOC: CountingAlloc = CountingAlloc;

fn main() {
    let args: Vec<String> = std::env::args().collect();
    if args.len() < 2 {
        eprintln!("usage: vcheck <property> --tier quick|thorough [--only <key>]");
        std::process::exit(2);
    }
    let prop = args[1].clone();
    let tier = args.iter().position(|a| a == "--tier").map(|i| args[i + 1].clone()).unwrap_or_else(|| "quick".into());
    let only = args.iter().position(|a| a == "--only").map(|i| args[i + 1].clone());
    if tier == "thorough" && !universe::THOROUGH {
        eprintln!("MACHINERY: thorough tier needs the binary built with --features thorough");
        std::process::exit(2);
    }
    std::env::set_var("TZ", "UTC");
    bridge::install_panic_hook();
    let code = match prop.as_str() {
        "C01" | "C04" | "C07" | "C08" | "C15" => p_values::run(&prop, &tier, only),
        "C05" | "C06" => match args.iter().position(|a| a == "--child-out") {
            Some(i) => p_bytes::child(&prop, &tier, only, &args[i + 1]),
            None => p_bytes::run(&prop, &tier, only),
        },
        "C18" => p_iso::run(&tier, only),
        "C18-race" => p_iso::race_child(args.get(2).map(|s| s.as_str()).unwrap_or(""), args.get(3).and_then(|s| s.parse().ok()).unwrap_or(8)),
        "C18-first" => p_iso::first_child(args.get(2).and_then(|s| s.parse().ok()).unwrap_or(usize::MAX)),
        "C18-seq" => p_iso::seq_child(args.get(2).map(|s| s.as_str()).unwrap_or("")),
        "C09" => p_tables::run_c09(&tier, only),
        "C10" => p_tables::run_c10(&tier, only),
        "C11" => p_varint::run(&tier, only),
        "C12" => p_misc::run_c12(&tier, only),
        "C16" => p_misc::run_c16(&tier, only),
        "C17" => p_misc::run_c17(&tier, only),
        "C03" => p_evo::run(&tier, only),
        "C02" => p_derived::run_c02(&tier, only),
        "C13" => p_derived::run_c13(&tier, only),
        "C14" => p_derived::run_c14(&tier, only),
        "list" => {
            let u = common::load();
            for e in &u.entries {
                println!("{}\t{}", e.name, bridge::rt::ty_name(&e.ty));
            }
            0
        }
        other => {
            eprintln!("MACHINERY: unknown property {other}");
            2
        }
    };
    std::process::exit(code);
}
