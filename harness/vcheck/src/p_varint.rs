//! C11: variable-length integers, exhaustively over all 2^32 unsigned and all 2^32 signed values.
use bridge::rt::{par_items, Run, Stats};
use bytes::BytesMut;
use desert::{BinaryInput, BinaryOutput, DeserializationContext, OwnedInput, SizeCalculator, SliceInput};
use serde_json::json;
use std::panic::{catch_unwind, AssertUnwindSafe};

#[derive(Clone, Copy, Debug, PartialEq, Eq)]
enum SinkK {
    Vec,
    BytesMut,
    Size,
}
#[derive(Clone, Copy, Debug, PartialEq, Eq)]
enum SrcK {
    Slice,
    Owned,
    Ctx,
}

/// reference formula, written as a loop over 7-bit groups (the library unrolls five cases)
#[inline]
fn ref_varu(mut n: u32, out: &mut [u8; 5]) -> usize {
    let mut i = 0;
    loop {
        let g = (n & 0x7f) as u8;
        n >>= 7;
        if n == 0 {
            out[i] = g;
            return i + 1;
        }
        out[i] = g | 0x80;
        i += 1;
    }
}

#[inline]
fn ref_zigzag(n: i32) -> u32 {
    // (n << 1) ^ (n >> 31), spelled differently: non-negatives map to even, negatives to odd
    if n >= 0 {
        (n as u32) << 1
    } else {
        (((-(n as i64)) as u64 as u32) << 1).wrapping_sub(1)
    }
}

#[inline]
fn min_len(z: u32) -> usize {
    let bits = 32 - z.leading_zeros() as usize;
    std::cmp::max(1, (bits + 6) / 7)
}

struct Item {
    signed: bool,
    sink: SinkK,
    src: SrcK,
    /// values: either a contiguous range of the 32-bit space or an explicit list
    range: Option<(u64, u64)>,
    list: Option<std::sync::Arc<Vec<u32>>>,
}

/// one value through one (sink, source) pair; Err(description) on any deviation
#[inline]
fn one(signed: bool, sink: SinkK, src: SrcK, raw: u32, vbuf: &mut Vec<u8>, bbuf: &mut BytesMut) -> Result<(), String> {
    let mut expect = [0u8; 5];
    let z = if signed { ref_zigzag(raw as i32) } else { raw };
    let n = ref_varu(z, &mut expect);
    if n != min_len(z) {
        return Err(format!("reference length {n} != minimal {}", min_len(z)));
    }
    // write
    let written: &[u8] = match sink {
        SinkK::Vec => {
            vbuf.clear();
            if signed {
                vbuf.write_var_i32(raw as i32)
            } else {
                vbuf.write_var_u32(raw)
            }
            &vbuf[..]
        }
        SinkK::BytesMut => {
            bbuf.clear();
            if signed {
                bbuf.write_var_i32(raw as i32)
            } else {
                bbuf.write_var_u32(raw)
            }
            &bbuf[..]
        }
        SinkK::Size => {
            let mut s = SizeCalculator::new();
            if signed {
                s.write_var_i32(raw as i32)
            } else {
                s.write_var_u32(raw)
            }
            if s.size() != n {
                return Err(format!("SizeCalculator says {} bytes, the encoding has {n}", s.size()));
            }
            // the bytes to read back come from the reference encoder
            vbuf.clear();
            vbuf.extend_from_slice(&expect[..n]);
            &vbuf[..]
        }
    };
    if written != &expect[..n] {
        return Err(format!("bytes {:02x?} != reference {:02x?}", written, &expect[..n]));
    }
    for (i, b) in written.iter().enumerate() {
        let cont = b & 0x80 != 0;
        if cont != (i + 1 < n) {
            return Err(format!("continuation bit wrong at byte {i} of {:02x?}", written));
        }
    }
    // read back, with a sentinel after the encoding so that over-reading is seen
    let mut input = [0u8; 6];
    input[..n].copy_from_slice(written);
    input[n] = 0xee;
    let inp = &input[..n + 1];
    let (got, sentinel): (u32, Result<u8, desert::Error>) = match src {
        SrcK::Slice => {
            let mut s = SliceInput::new(inp);
            let g = if signed { s.read_var_i32().map(|x| x as u32) } else { s.read_var_u32() };
            (g.map_err(|e| format!("read error {e:?}"))?, s.read_u8())
        }
        SrcK::Owned => {
            let mut s = OwnedInput::new(inp.to_vec());
            let g = if signed { s.read_var_i32().map(|x| x as u32) } else { s.read_var_u32() };
            (g.map_err(|e| format!("read error {e:?}"))?, s.read_u8())
        }
        SrcK::Ctx => {
            let mut s = DeserializationContext::new(inp);
            let g = if signed { s.read_var_i32().map(|x| x as u32) } else { s.read_var_u32() };
            (g.map_err(|e| format!("read error {e:?}"))?, s.read_u8())
        }
    };
    if got != raw {
        return Err(format!("read back {got:#x}"));
    }
    match sentinel {
        Ok(0xee) => Ok(()),
        other => Err(format!("did not consume exactly {n} bytes (next read: {other:?})")),
    }
}

fn run_item(it: &Item, st: &mut Stats) {
    let mut vbuf = Vec::with_capacity(8);
    let mut bbuf = BytesMut::with_capacity(8);
    let mut go = |raw: u32, st: &mut Stats, vbuf: &mut Vec<u8>, bbuf: &mut BytesMut| {
        st.states += 1;
        st.transitions += 2;
        st.validated += 1;
        let r = catch_unwind(AssertUnwindSafe(|| one(it.signed, it.sink, it.src, raw, vbuf, bbuf)));
        let err = match r {
            Ok(Ok(())) => {
                st.nontrivial += 1;
                if (raw == 300 || raw == 0x20_0000 || raw == u32::MAX) && st.samples.len() < 3 {
                    let mut b = [0u8; 5];
                    let z = if it.signed { ref_zigzag(raw as i32) } else { raw };
                    let n = ref_varu(z, &mut b);
                    st.sample(json!({"value": if it.signed { format!("i32 {}", raw as i32) } else { format!("u32 {raw}") }, "bytes": bridge::rt::hex(&b[..n]), "sink": format!("{:?}", it.sink), "source": format!("{:?}", it.src)}));
                }
                return;
            }
            Ok(Err(e)) => e,
            Err(_) => "panic".to_string(),
        };
        let shown = if it.signed { format!("{}", raw as i32) } else { format!("{raw}") };
        st.violate(
            format!("C11 {} {:?}->{:?} widthclass={}", if it.signed { "i32" } else { "u32" }, it.sink, it.src, min_len(if it.signed { ref_zigzag(raw as i32) } else { raw })),
            format!("{}:{:?}:{:?}:{raw}", if it.signed { "i" } else { "u" }, it.sink, it.src),
            json!({"value": shown, "sink": format!("{:?}", it.sink), "source": format!("{:?}", it.src), "problem": err}),
        );
    };
    if let Some((a, b)) = it.range {
        for raw in a..b {
            go(raw as u32, st, &mut vbuf, &mut bbuf);
        }
    }
    if let Some(l) = &it.list {
        for raw in l.iter() {
            go(*raw, st, &mut vbuf, &mut bbuf);
        }
    }
}

/// structured subset: 2^k, 2^k +- 1, all-ones prefixes, every value whose 7-bit groups are each
/// 00, 01, 7e or 7f (contains all four width boundaries, i32::MIN / MAX)
fn structured() -> Vec<u32> {
    let mut v: Vec<u32> = vec![0, u32::MAX, i32::MAX as u32, i32::MIN as u32];
    for k in 0..32 {
        let p = 1u32 << k;
        v.extend([p, p.wrapping_sub(1), p.wrapping_add(1), !p, p.wrapping_neg()]);
        v.push(((1u64 << (k + 1)) - 1) as u32);
    }
    let groups = [0x00u32, 0x01, 0x7e, 0x7f];
    for a in groups {
        for b in groups {
            for c in groups {
                for d in groups {
                    for e in [0u32, 1, 0xe, 0xf] {
                        v.push(a | (b << 7) | (c << 14) | (d << 21) | (e << 28));
                    }
                }
            }
        }
    }
    v.sort();
    v.dedup();
    v
}

pub fn run(tier: &str, only: Option<String>) -> i32 {
    let mut run = Run::new("C11", tier, "model_checking", only);
    let thorough = run.thorough();
    let sinks = [SinkK::Vec, SinkK::BytesMut, SinkK::Size];
    let srcs = [SrcK::Slice, SrcK::Owned, SrcK::Ctx];
    let mut items = Vec::new();
    let subset = std::sync::Arc::new(structured());
    let mut full_pairs = 0;
    if let Some(k) = &run.only {
        // replay: "<u|i>:<Sink>:<Src>:<raw>"
        let p: Vec<&str> = k.split(':').collect();
        let sink = sinks.iter().copied().find(|s| format!("{s:?}") == p[1]).expect("sink");
        let src = srcs.iter().copied().find(|s| format!("{s:?}") == p[2]).expect("source");
        let raw: u32 = p[3].parse().expect("value");
        items.push(Item { signed: p[0] == "i", sink, src, range: None, list: Some(std::sync::Arc::new(vec![raw])) });
    } else {
        for signed in [false, true] {
            for sink in sinks {
                for src in srcs {
                    let full = thorough || (sink == SinkK::Vec && src == SrcK::Slice);
                    if full {
                        full_pairs += 1;
                        let shard = 1u64 << 22;
                        let mut a = 0u64;
                        while a < (1u64 << 32) {
                            items.push(Item { signed, sink, src, range: Some((a, a + shard)), list: None });
                            a += shard;
                        }
                    } else {
                        items.push(Item { signed, sink, src, range: None, list: Some(subset.clone()) });
                    }
                }
            }
        }
    }
    let stats = par_items(&items, Some(bridge::rt::hang_limit()), &|it: &Item| {
        println!("  hang in shard {:?} {:?}->{:?}", it.range, it.sink, it.src);
    }, &|it: &Item, st: &mut Stats| run_item(it, st));
    run.stats = stats;
    run.stats.add("sink_source_sign_combinations_swept_over_all_2^32_values", full_pairs);
    run.stats.add("structured_subset_size", subset.len() as u64);
    run.exhaustive = true;
    run.rule = format!(
        "all 2^32 u32 and all 2^32 i32 values through {} of the 18 (signedness, sink, source) combinations, the structured subset ({} values: 2^k, 2^k+-1, all-ones prefixes, all values whose 7-bit groups are 00/01/7e/7f) through the others; per value: bytes == reference formula, length minimal, continuation bits, read back equal, exactly the encoding consumed (sentinel). Non-trivial = all of these held.",
        full_pairs,
        subset.len()
    );
    run.bounds = json!({"values": "all 2^32 per signedness", "combinations_fully_swept": full_pairs, "of": 18});
    run.assumptions = vec!["none beyond rustc: the thorough tier is exhaustive outright".into()];
    run.finish()
}
