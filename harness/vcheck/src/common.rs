use bridge::rt::Run;
use bridge::Entry;
use refmodel::spec;
use refmodel::values::Params;
use std::collections::HashMap;

pub struct U {
    pub entries: Vec<Entry>,
    pub by_name: HashMap<String, usize>,
    pub spec: &'static spec::Universe,
}

impl U {
    pub fn get(&self, name: &str) -> &Entry {
        &self.entries[*self.by_name.get(name).unwrap_or_else(|| panic!("no entry {name}"))]
    }
}

pub fn load() -> U {
    let entries = universe::entries();
    let by_name = entries.iter().enumerate().map(|(i, e)| (e.name.clone(), i)).collect();
    U { entries, by_name, spec: spec::universe(universe::THOROUGH) }
}

pub fn params(run: &Run) -> Params {
    if run.thorough() {
        Params::thorough()
    } else {
        Params::quick()
    }
}

pub fn params_for(thorough: bool) -> Params {
    if thorough {
        Params::thorough()
    } else {
        Params::quick()
    }
}
