//! Generated universe of concrete programs: built-in type expressions and derive declarations,
//! each with monomorphic entry points into the real library. Split into parts (separate crates)
//! only so that cargo compiles them in parallel. See `vgen`.
pub const THOROUGH: bool = p0::THOROUGH;
pub use p0::extra;

pub fn entries() -> Vec<bridge::Entry> {
    let mut v = Vec::new();
    v.extend(p0::entries());
    v.extend(p1::entries());
    v.extend(p2::entries());
    v.extend(p3::entries());
    v.extend(p4::entries());
    v.extend(p5::entries());
    v.extend(p6::entries());
    v.extend(p7::entries());
    v
}
