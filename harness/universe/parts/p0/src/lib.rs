#![allow(unused_parens, unused_variables, dead_code, non_snake_case, non_upper_case_globals, non_camel_case_types, unreachable_code, clippy::all)]
#[cfg(not(feature = "thorough"))]
include!("generated_quick.rs");
#[cfg(feature = "thorough")]
include!("generated_thorough.rs");

/// Hand-written additions to the generated universe (definitions the reference model's
/// descriptors do not express).
pub mod extra {
    use desert::{deserialize, serialize_to_byte_vec, BinaryCodec};

    /// an enum with evolution steps *of its own* (not on a constructor)
    #[derive(BinaryCodec, Debug, PartialEq, Clone)]
    #[evolution(FieldAdded("x", 1u8))]
    pub enum EnumLevelEvo {
        A,
        B(u8),
        C { s: String },
    }

    /// (value, bytes the format prescribes, bytes the library wrote or its error, what the library
    /// decodes from the prescribed bytes - `Ok(true)` when it is the value)
    pub fn enum_level_evolution() -> Vec<(String, Vec<u8>, Result<Vec<u8>, String>, Result<bool, String>)> {
        // V = 1 | size of chunk 0 (zig-zag) | chunk 1: empty | chunk 0 = index ++ constructor record
        let cases: Vec<(EnumLevelEvo, Vec<u8>)> = vec![
            (EnumLevelEvo::A, vec![1, 4, 0, 0, 0]),
            (EnumLevelEvo::B(7), vec![1, 6, 0, 1, 0, 7]),
            (EnumLevelEvo::C { s: "hi".into() }, vec![1, 10, 0, 2, 0, 4, b'h', b'i']),
        ];
        cases
            .into_iter()
            .map(|(v, want)| {
                let got = serialize_to_byte_vec(&v).map_err(|e| format!("{e:?}"));
                let back = deserialize::<EnumLevelEvo>(&want).map(|d| d == v).map_err(|e| format!("{e:?}"));
                (format!("{v:?}"), want, got, back)
            })
            .collect()
    }
}
