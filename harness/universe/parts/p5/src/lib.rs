#![allow(unused_parens, unused_variables, dead_code, non_snake_case, non_upper_case_globals, non_camel_case_types, unreachable_code, clippy::all)]
#[cfg(not(feature = "thorough"))]
include!("generated_quick.rs");
#[cfg(feature = "thorough")]
include!("generated_thorough.rs");
