//! Anchor of the model to bytes that desert-rust did not produce: the Scala golden file must
//! decode (by the model alone) to the value spelled out in the repository's golden test, and the
//! model encoder, told the forms met while decoding, must reproduce the file byte for byte.
use refmodel::golden::{expected, test_model1};
use refmodel::*;
use std::sync::Arc;

fn fld(name: &str, ty: Ty) -> FieldDescr {
    FieldDescr { name: name.into(), is_option: matches!(ty, Ty::Opt(_)), ty, transient: None, default: None }
}

#[test]
fn anchor_helper_agrees() {
    assert_eq!(refmodel::golden::check_anchor(), Ok(242540));
}

#[test]
fn golden_file_decodes_to_the_spelled_out_value_and_reencodes_exactly() {
    let bytes = std::fs::read("/repo/desert_macro/golden/dataset1.bin").unwrap();
    let ty = test_model1();
    let mut dec = Dec::new(&bytes);
    let mut c = Cur { pos: 0, end: bytes.len() };
    let v = dec.dec(&ty, &mut c).expect("model decodes the Scala golden file");
    assert_eq!(c.pos, bytes.len(), "model consumes the whole golden file");
    assert_eq!(canon(&ty, &v), canon(&ty, &expected()));
    // Scala wrote its List in the unknown-size form and the second "cached" header name in plain
    // form again: both are legal alternative forms (DESIGN 4.5), recorded while decoding.
    assert!(dec.seen_seq_unknown.iter().any(|x| *x));
    assert_eq!(dec.seen_replain.len(), 1);
    let forms = Forms { seq_unknown: dec.seen_seq_unknown.clone(), replain: dec.seen_replain.clone(), ..Default::default() };
    let (re, _) = ref_encode_forms(&ty, &v, forms).unwrap();
    assert_eq!(re.b.len(), bytes.len());
    assert!(re.b == bytes, "model encoder reproduces the golden bytes");
}

#[test]
fn point_vector_of_the_derivation_test() {
    // #[evolution(FieldAdded("x", 0), FieldRemoved("z"))] struct Point { x: i32, y: i32, #[transient] _cached_str }
    let mut x = fld("x", Ty::I32);
    x.default = Some(Val::I(0));
    let mut cached = fld("_cached_str", Ty::Opt(Box::new(Ty::Str)));
    cached.transient = Some(Val::none());
    let ty = Ty::Record(Arc::new(RecordDescr {
        name: "Point".into(),
        steps: vec![Step::Added("x".into()), Step::Removed("z".into())],
        fields: vec![x, fld("y", Ty::I32), cached],
    }));
    let v = Val::Rec(vec![Val::I(1), Val::I(-10), Val::none()]);
    let b = ref_encode(&ty, &v).unwrap();
    assert_eq!(b.b, vec![0x02, 0x08, 0x08, 0x03, 0x02, 0x7a, 0xff, 0xff, 0xff, 0xf6, 0, 0, 0, 1]);
    let (back, n) = ref_decode(&ty, &b.b).unwrap();
    assert_eq!(n, b.b.len());
    assert_eq!(back, v);
}
