//! The Scala golden file as an anchor of the model: descriptor of `TestModel1` and the expected
//! value, spelled out in (and partly read from) the repository's own golden test.
use crate::*;
use std::sync::Arc;

fn fld(name: &str, ty: Ty) -> FieldDescr {
    FieldDescr { name: name.into(), is_option: matches!(ty, Ty::Opt(_)), ty, transient: None, default: None }
}

fn list_element1() -> Ty {
    Ty::Record(Arc::new(RecordDescr { name: "ListElement1".into(), steps: vec![], fields: vec![fld("id", Ty::Str)] }))
}

fn list_element2() -> Ty {
    let first = VariantDescr {
        name: "First".into(),
        transient: false,
        shape: 2,
        record: RecordDescr { name: "First".into(), steps: vec![], fields: vec![fld("elem", list_element1())] },
    };
    let mut cached = fld("_cached", Ty::Opt(Box::new(Ty::Str)));
    cached.transient = Some(Val::none());
    let second = VariantDescr {
        name: "Second".into(),
        transient: false,
        shape: 2,
        record: RecordDescr {
            name: "Second".into(),
            steps: vec![Step::MadeTransient("cached".into())],
            fields: vec![fld("uuid", Ty::Uuid), fld("desc", Ty::Opt(Box::new(Ty::Str))), cached],
        },
    };
    let third = VariantDescr {
        name: "Third".into(),
        transient: true,
        shape: 2,
        record: RecordDescr { name: "Third".into(), steps: vec![], fields: vec![] },
    };
    Ty::Enum(Arc::new(EnumDescr { name: "ListElement2".into(), sorted: true, variants: vec![first, second, third] }))
}

fn ste() -> Ty {
    let os = Ty::Opt(Box::new(Ty::Str));
    Ty::Tuple(vec![os.clone(), os.clone(), os, Ty::VarU32])
}

fn throwable() -> Ty {
    Ty::Record(Arc::new(RecordDescr {
        name: "Throwable".into(),
        steps: vec![],
        fields: vec![
            fld("class_name", Ty::Str),
            fld("message", Ty::Str),
            fld("stack_trace", Ty::Seq(SeqKind::Vec, Box::new(ste()))),
            fld("cause", Ty::Opt(Box::new(Ty::Named("Throwable".into())))),
        ],
    }))
}

pub fn test_model1() -> Ty {
    let mut string = fld("string", Ty::Str);
    string.default = Some(Val::s("default string"));
    let mut set = fld("set", Ty::Seq(SeqKind::HashSet, Box::new(Ty::Str)));
    set.default = Some(Val::Seq(vec![]));
    Ty::Record(Arc::new(RecordDescr {
        name: "TestModel1".into(),
        steps: vec![Step::MadeOptional("option".into()), Step::Added("string".into()), Step::Added("set".into())],
        fields: vec![
            fld("byte", Ty::I8),
            fld("short", Ty::I16),
            fld("int", Ty::I32),
            fld("long", Ty::I64),
            fld("float", Ty::F32),
            fld("double", Ty::F64),
            fld("boolean", Ty::Bool),
            fld("unit", Ty::Unit),
            string,
            fld("uuid", Ty::Uuid),
            fld("exception", throwable()),
            fld("list", Ty::Seq(SeqKind::Vec, Box::new(list_element1()))),
            fld("array", Ty::Seq(SeqKind::Vec, Box::new(Ty::I64))),
            fld("vector", Ty::Seq(SeqKind::Vec, Box::new(list_element1()))),
            set,
            fld("either", Ty::Res(Box::new(Ty::Bool), Box::new(Ty::Str))),
            fld("tried", Ty::Res(Box::new(list_element2()), Box::new(throwable()))),
            fld("option", Ty::Opt(Box::new(Ty::Map(MapKind::Hash, Box::new(Ty::Str), Box::new(list_element2()))))),
        ],
    }))
}

fn uuid(s: &str) -> Val {
    let hex: String = s.chars().filter(|c| *c != '-').collect();
    Val::Bytes((0..16).map(|i| u8::from_str_radix(&hex[2 * i..2 * i + 2], 16).unwrap()).collect())
}

/// the stack-trace elements exactly as the repository's golden test spells them
fn stack_traces_from_repo_test() -> Vec<Val> {
    let src = std::fs::read_to_string("/repo/desert_macro/tests/golden.rs").unwrap();
    let body = &src[src.find("let expected = TestModel1").unwrap()..];
    let mut out = Vec::new();
    let mut rest = body;
    fn quoted(s: &str, key: &str) -> (String, usize) {
        let i = s.find(key).unwrap();
        let a = i + s[i..].find('"').unwrap() + 1;
        let b = a + s[a..].find('"').unwrap();
        (s[a..b].to_string(), b)
    }
    while let Some(i) = rest.find("StackTraceElement {") {
        rest = &rest[i..];
        let (c, _) = quoted(rest, "class_name:");
        let (m, _) = quoted(rest, "method_name:");
        let (f, e) = quoted(rest, "file_name:");
        let l = rest[e..].find("line_number:").unwrap() + e + "line_number:".len();
        let le = l + rest[l..].find(',').unwrap();
        let line: u32 = rest[l..le].trim().parse().unwrap();
        out.push(Val::Tuple(vec![Val::some(Val::s(&c)), Val::some(Val::s(&m)), Val::some(Val::s(&f)), Val::U(line as u128)]));
        rest = &rest[le..];
    }
    out
}

fn le1(id: &str) -> Val {
    Val::Rec(vec![Val::s(id)])
}

pub fn expected() -> Val {
    let st = stack_traces_from_repo_test();
    assert_eq!(st.len(), 32);
    let cause = Val::Rec(vec![
        Val::s("java.lang.IllegalArgumentException"),
        Val::s("param should not be negative"),
        Val::Seq(st[16..].to_vec()),
        Val::none(),
    ]);
    let exception = Val::Rec(vec![
        Val::s("java.lang.RuntimeException"),
        Val::s("Example exception"),
        Val::Seq(st[..16].to_vec()),
        Val::some(cause),
    ]);
    let u = uuid("0ca26648-edee-4a2d-bd88-eebf92d19c30");
    Val::Rec(vec![
        Val::I(-10),
        Val::I(10000),
        Val::I(-2000000000),
        Val::I(100000000001),
        Val::F32(3.14f32.to_bits()),
        Val::F64(0.1234e-10f64.to_bits()),
        Val::Bool(false),
        Val::Unit,
        Val::s("Example data set"),
        uuid("d90c4285-544d-424d-885c-3940fe00883d"),
        exception,
        Val::Seq(vec![le1("a"), le1("aa"), le1("aaa")]),
        Val::Seq((1..=30000).map(Val::I).collect()),
        Val::Seq((1..=100).map(|i| le1(&i.to_string())).collect()),
        Val::Seq(vec![Val::s("hello"), Val::s("world")]),
        Val::Res(Ok(Box::new(Val::Bool(true)))),
        Val::Res(Ok(Box::new(Val::Enum(0, vec![le1("")])))),
        Val::some(Val::Map(vec![
            (Val::s("first"), Val::Enum(0, vec![le1("1st")])),
            (Val::s("second"), Val::Enum(1, vec![u.clone(), Val::none(), Val::none()])),
            (Val::s("third"), Val::Enum(1, vec![u, Val::some(Val::s("some description")), Val::none()])),
        ])),
    ])
}


/// Decode the golden file with the model alone, compare with the spelled-out value, re-encode
/// with the forms met while decoding and compare byte for byte. Err(description) on any deviation.
pub fn check_anchor() -> Result<usize, String> {
    let bytes = std::fs::read("/repo/desert_macro/golden/dataset1.bin").map_err(|e| format!("golden file: {e}"))?;
    let ty = test_model1();
    let mut dec = Dec::new(&bytes);
    let mut c = Cur { pos: 0, end: bytes.len() };
    let v = dec.dec(&ty, &mut c).map_err(|e| format!("model does not decode the golden file: {e:?}"))?;
    if c.pos != bytes.len() {
        return Err(format!("model consumed {} of {} golden bytes", c.pos, bytes.len()));
    }
    if canon(&ty, &v) != canon(&ty, &expected()) {
        return Err("model decodes the golden file to a value other than the one spelled out in the repository's test".into());
    }
    let forms = Forms { seq_unknown: dec.seen_seq_unknown.clone(), replain: dec.seen_replain.clone(), ..Default::default() };
    let (re, _) = ref_encode_forms(&ty, &v, forms).map_err(|e| format!("model cannot re-encode: {e:?}"))?;
    if re.b != bytes {
        return Err("model encoder does not reproduce the golden bytes".into());
    }
    Ok(bytes.len())
}
