//! The universe of programs (type expressions and derive declarations) the checks quantify over
//! (DESIGN section 5). Both the generator (`vgen`, which emits Rust text) and the checks (which
//! need the abstract declaration as the model's descriptor) call these functions, so the Rust text
//! and the descriptor always come from the same abstract declaration.
use crate::evo::{self, BaseField, HStep, History};
use crate::ty::*;
use std::collections::HashMap;
use std::sync::{Arc, OnceLock};

#[derive(Clone, Debug)]
pub struct Decl {
    pub name: String,
    pub ty: Ty,
    pub tags: Vec<&'static str>,
    /// 0 `Option`, 1 `std::option::Option`, 2 `core::option::Option`, 3 `(Option<..>)` (every field
    /// type parenthesised), 4 the whole struct declared through a `macro_rules!` macro whose field
    /// types are `$t:ty` fragments (they reach the derive macro inside invisible groups)
    pub opt_spelling: u8,
}

#[derive(Clone, Debug)]
pub struct HistNode {
    pub decl: String,
    pub hist: usize,
    pub version: usize,
    pub parent: Option<usize>,
}

#[derive(Clone, Debug, Default)]
pub struct Universe {
    pub decls: Vec<Decl>,
    /// compiled evolution histories: one declaration per (history, version)
    pub histories: Vec<History>,
    /// `hist_decl[h][k]` = name of the declaration of history h at version k
    pub hist_decl: Vec<Vec<String>>,
    /// enums with their one-variant extensions: (base, extended, decl index of the new variant in extended)
    pub enum_ext: Vec<(String, String, usize)>,
    /// evolution of one enum constructor: `variant_hist[i] = (history index, [enum decl per version])`;
    /// the enum is `{ Zed = declaration of the history at that version, Mid(u8) }`
    pub variant_hist: Vec<(usize, Vec<String>)>,
}

fn fld(name: &str, ty: Ty) -> FieldDescr {
    FieldDescr { name: name.into(), is_option: matches!(ty, Ty::Opt(_)), ty, transient: None, default: None }
}

fn opt(t: Ty) -> Ty {
    Ty::Opt(Box::new(t))
}

fn rec(name: &str, steps: Vec<Step>, fields: Vec<FieldDescr>) -> Ty {
    Ty::Record(Arc::new(RecordDescr { name: name.into(), steps, fields }))
}

/// nested helper declarations
pub fn n0() -> Ty {
    rec("N0", vec![], vec![fld("a", Ty::U8), fld("b", Ty::Str)])
}
pub fn n1() -> Ty {
    let mut n = fld("n0", opt(Ty::Str));
    n.default = Some(Val::none());
    rec("N1", vec![Step::Added("n0".into()), Step::Removed("zz".into())], vec![fld("a", Ty::U8), n])
}
pub fn ne() -> Ty {
    Ty::Enum(Arc::new(EnumDescr {
        name: "NE".into(),
        sorted: false,
        variants: vec![
            VariantDescr { name: "A".into(), transient: false, shape: 0, record: RecordDescr { name: "A".into(), steps: vec![], fields: vec![] } },
            VariantDescr {
                name: "B".into(),
                transient: false,
                shape: 1,
                record: RecordDescr { name: "B".into(), steps: vec![], fields: vec![fld("field0", Ty::U8)] },
            },
        ],
    }))
}

/// field types of the declaration grammar: (label, type as function of the enclosing name)
fn field_types(self_name: &str) -> Vec<(&'static str, Ty)> {
    vec![
        ("u8", Ty::U8),
        ("String", Ty::Str),
        ("OptU8", opt(Ty::U8)),
        ("VecU8", Ty::ByteVec),
        ("N1", n1()),
        ("Dedup", Ty::DedupStr),
        ("OptString", opt(Ty::Str)),
        ("ArrU16x2", Ty::Array(2, Box::new(Ty::U16))),
        ("TupU8String", Ty::Tuple(vec![Ty::U8, Ty::Str])),
        ("N0", n0()),
        ("NE", ne()),
        ("OptBoxSelf", opt(Ty::Named(self_name.into()))),
        ("VecSelf", Ty::Seq(SeqKind::Vec, Box::new(Ty::Named(self_name.into())))),
        ("ArrU8x3", Ty::ByteArray(3)),
    ]
}

fn field_names() -> [&'static str; 3] {
    ["a", "b", "c"]
}

fn structs(out: &mut Vec<Decl>) {
    let mut n = 0usize;
    let mut push = |fields: Vec<FieldDescr>, tags: Vec<&'static str>, spelling: u8, out: &mut Vec<Decl>| {
        let name = format!("S{n}");
        n += 1;
        // re-bind self references to the final name
        let fields = fields
            .into_iter()
            .map(|mut f| {
                f.ty = rename_self(&f.ty, &name);
                f
            })
            .collect();
        out.push(Decl { name: name.clone(), ty: rec(&name, vec![], fields), tags, opt_spelling: spelling });
    };
    // unit-like and empty
    push(vec![], vec!["struct", "unit"], 0, out);
    push(vec![], vec!["struct", "empty_braces"], 0, out);
    let ft = field_types("SELF");
    let names = field_names();
    // one field: every type, plain and transient, every Option spelling
    for (i, (_, t)) in ft.iter().enumerate() {
        for transient in [false, true] {
            if transient && contains_self(t) {
                continue;
            }
            let mut f = fld(names[0], t.clone());
            if transient {
                f.transient = Some(evo_default(t));
            }
            push(vec![f], vec!["struct", "one_field"], (i % 3) as u8, out);
        }
    }
    // Option detection is by type name: an alias is *not* detected
    {
        let mut f = fld("a", opt(Ty::U8));
        f.is_option = false;
        push(vec![f, fld("b", Ty::U8)], vec!["struct", "opt_alias"], 0, out);
    }
    // two fields over the first six types, transient in no / first / second position
    for (_, t1) in ft.iter().take(6) {
        for (_, t2) in ft.iter().take(6) {
            for tr in 0..3 {
                let mut f1 = fld(names[0], t1.clone());
                let mut f2 = fld(names[1], t2.clone());
                if tr == 1 {
                    f1.transient = Some(evo_default(t1));
                }
                if tr == 2 {
                    f2.transient = Some(evo_default(t2));
                }
                push(vec![f1, f2], vec!["struct", "two_fields"], 0, out);
            }
        }
    }
    // three fields over three types, transient patterns: none, each single position, first two
    let t3: Vec<Ty> = vec![Ty::U8, Ty::Str, opt(Ty::U8)];
    for a in &t3 {
        for b in &t3 {
            for c in &t3 {
                for tr in 0..5 {
                    let tys = [a, b, c];
                    let mut fs: Vec<FieldDescr> = (0..3).map(|i| fld(names[i], tys[i].clone())).collect();
                    let which: &[usize] = match tr {
                        0 => &[],
                        1 => &[0],
                        2 => &[1],
                        3 => &[2],
                        _ => &[0, 1],
                    };
                    for &w in which {
                        fs[w].transient = Some(evo_default(tys[w]));
                    }
                    push(fs, vec!["struct", "three_fields"], 0, out);
                }
            }
        }
    }
    // recursive shapes with siblings after the recursive field
    push(
        vec![fld("a", Ty::Str), fld("b", opt(Ty::Named("SELF".into()))), fld("c", Ty::U8)],
        vec!["struct", "recursive"],
        0,
        out,
    );
    push(
        vec![fld("a", Ty::Seq(SeqKind::Vec, Box::new(Ty::Named("SELF".into())))), fld("b", Ty::U16)],
        vec!["struct", "recursive"],
        0,
        out,
    );
}

fn contains_self(t: &Ty) -> bool {
    match t {
        Ty::Named(_) => true,
        Ty::Opt(x) | Ty::Seq(_, x) | Ty::Array(_, x) => contains_self(x),
        _ => false,
    }
}

fn rename_self(t: &Ty, name: &str) -> Ty {
    match t {
        Ty::Named(n) if n == "SELF" => Ty::Named(name.into()),
        Ty::Opt(x) => Ty::Opt(Box::new(rename_self(x, name))),
        Ty::Seq(k, x) => Ty::Seq(*k, Box::new(rename_self(x, name))),
        Ty::Array(n, x) => Ty::Array(*n, Box::new(rename_self(x, name))),
        other => other.clone(),
    }
}

/// transient default different from every enumerated value
pub fn evo_default(t: &Ty) -> Val {
    match t {
        Ty::Record(rd) if rd.name == "N1" => Val::Rec(vec![Val::U(78), Val::some(Val::s("<t>"))]),
        Ty::Record(rd) if rd.name == "N0" => Val::Rec(vec![Val::U(78), Val::s("<t>")]),
        Ty::Enum(_) => Val::Enum(1, vec![Val::U(79)]),
        Ty::Array(n, t) => Val::Seq((0..*n).map(|_| evo_default(t)).collect()),
        Ty::ByteArray(n) => Val::Bytes(vec![0x77; *n]),
        other => evo::transient_default(other),
    }
}

#[derive(Clone, Copy, Debug, PartialEq, Eq)]
pub enum VKind {
    Unit,
    Tuple1,
    Tuple2,
    Struct,
    StructEvolved,
    TupleEvolved,
    Transient,
    /// tuple variant whose first field is transient: (#[transient(77)] u8, String)
    TupleTransientFirst,
    /// struct variant with a transient field between two serialized ones
    StructTransientMid,
}

pub fn variant(kind: VKind, name: &str) -> VariantDescr {
    let r = |steps: Vec<Step>, fields: Vec<FieldDescr>| RecordDescr { name: name.into(), steps, fields };
    match kind {
        VKind::Unit => VariantDescr { name: name.into(), transient: false, shape: 0, record: r(vec![], vec![]) },
        VKind::Tuple1 => {
            VariantDescr { name: name.into(), transient: false, shape: 1, record: r(vec![], vec![fld("field0", Ty::U8)]) }
        }
        VKind::Tuple2 => VariantDescr {
            name: name.into(),
            transient: false,
            shape: 1,
            record: r(vec![], vec![fld("field0", Ty::U8), fld("field1", Ty::Str)]),
        },
        VKind::Struct => {
            VariantDescr { name: name.into(), transient: false, shape: 2, record: r(vec![], vec![fld("a", Ty::Str)]) }
        }
        VKind::StructEvolved => {
            let mut n = fld("n0", opt(Ty::U8));
            n.default = Some(Val::some(Val::U(5)));
            VariantDescr {
                name: name.into(),
                transient: false,
                shape: 2,
                record: r(vec![Step::Added("n0".into()), Step::MadeOptional("a".into())], vec![fld("a", opt(Ty::Str)), n]),
            }
        }
        VKind::TupleEvolved => {
            let mut n = fld("field1", opt(Ty::U8));
            n.default = Some(Val::none());
            VariantDescr {
                name: name.into(),
                transient: false,
                shape: 1,
                record: r(vec![Step::Added("field1".into())], vec![fld("field0", Ty::U16), n]),
            }
        }
        VKind::Transient => VariantDescr { name: name.into(), transient: true, shape: 0, record: r(vec![], vec![]) },
        VKind::TupleTransientFirst => {
            let mut t = fld("field0", Ty::U8);
            t.transient = Some(Val::U(77));
            VariantDescr { name: name.into(), transient: false, shape: 1, record: r(vec![], vec![t, fld("field1", Ty::Str), fld("field2", Ty::U16)]) }
        }
        VKind::StructTransientMid => {
            let mut t = fld("b", opt(Ty::Str));
            t.transient = Some(Val::some(Val::s("<transient>")));
            VariantDescr { name: name.into(), transient: false, shape: 2, record: r(vec![], vec![fld("a", Ty::U8), t, fld("c", Ty::Str)]) }
        }
    }
}

/// variant names chosen so that name order is the reverse of declaration order
pub const VNAMES: [&str; 4] = ["Zed", "Mid", "Beta", "Alpha"];

/// deduplicated strings inside evolved declarations whose declaration order differs from chunk
/// order (the string table is shared by all fields and by the header names)
fn dedup_decls(out: &mut Vec<Decl>) {
    let d = |n: &str| fld(n, Ty::DedupStr);
    let dd = |n: &str| {
        let mut f = fld(n, Ty::DedupStr);
        f.default = Some(Val::s("d"));
        f
    };
    let mut push = |name: &str, steps: Vec<Step>, fields: Vec<FieldDescr>| {
        out.push(Decl { name: name.into(), ty: rec(name, steps, fields), tags: vec!["struct", "dedup_evolved"], opt_spelling: 0 });
    };
    push("DS0", vec![Step::Added("tag".into())], vec![dd("tag"), d("name")]);
    push("DS1", vec![Step::Added("tag".into()), Step::Removed("zz".into())], vec![d("name"), dd("tag"), d("other")]);
    push("DS2", vec![Step::Added("n0".into()), Step::Added("n1".into())], vec![dd("n1"), d("a"), dd("n0")]);
    push("DS3", vec![Step::MadeTransient("a".into()), Step::Added("n0".into())], vec![dd("n0"), d("b")]);
    // the same inside an enum constructor
    let var = VariantDescr {
        name: "V".into(),
        transient: false,
        shape: 2,
        record: RecordDescr { name: "V".into(), steps: vec![Step::Added("tag".into()), Step::Removed("a".into())], fields: vec![dd("tag"), d("name")] },
    };
    out.push(Decl {
        name: "DSE".into(),
        ty: Ty::Enum(Arc::new(EnumDescr { name: "DSE".into(), sorted: false, variants: vec![var, variant(VKind::Tuple1, "W")] })),
        tags: vec!["enum", "dedup_evolved"],
        opt_spelling: 0,
    });
}

/// fieldless enums with explicit discriminants (`Low = 1, Mid = 6, High = 11`): the constructor
/// index is the position (or the name order), never the discriminant
fn discriminant_enums(out: &mut Vec<Decl>, ext: &mut Vec<(String, String, usize)>) {
    for (i, (names, sorted)) in [(["Low", "Mid", "High"], false), (["Zed", "Alpha", "Mid"], true)].iter().enumerate() {
        let name = format!("ED{i}");
        let variants: Vec<VariantDescr> = names.iter().map(|n| variant(VKind::Unit, n)).collect();
        let ed = EnumDescr { name: name.clone(), sorted: *sorted, variants };
        out.push(Decl { name: name.clone(), ty: Ty::Enum(Arc::new(ed.clone())), tags: vec!["enum", "discriminants"], opt_spelling: 0 });
        let xname = format!("{name}X");
        let (x, idx) = extend_enum(&ed, &xname, VKind::Unit);
        out.push(Decl { name: xname.clone(), ty: Ty::Enum(Arc::new(x)), tags: vec!["enum", "discriminants", "extension"], opt_spelling: 0 });
        ext.push((name, xname, idx));
    }
}

/// evolved records inside the chunks of evolved records (a decoder's region of a region)
fn nested_evolved(out: &mut Vec<Decl>) {
    let n1v = Val::Rec(vec![Val::U(0), Val::none()]);
    let mut push = |name: &str, steps: Vec<Step>, fields: Vec<FieldDescr>| {
        out.push(Decl { name: name.into(), ty: rec(name, steps, fields), tags: vec!["struct", "evolved_nested"], opt_spelling: 0 });
    };
    let with_default = |mut f: FieldDescr, d: Val| {
        f.default = Some(d);
        f
    };
    // the nested record in chunk 0, followed by a sibling, an added field in chunk 1
    push("EE0", vec![Step::Added("t".into())], vec![fld("a", Ty::U8), fld("x", n1()), fld("b", Ty::U8), with_default(fld("t", Ty::U8), Val::U(5))]);
    // the nested record is the added field: chunk 1
    push("EE1", vec![Step::Added("x".into())], vec![fld("a", Ty::U8), with_default(fld("x", n1()), n1v.clone())]);
    // a sequence of nested records, then a string in a later chunk
    push(
        "EE2",
        vec![Step::Added("t".into()), Step::Removed("zz".into())],
        vec![fld("x", Ty::Seq(SeqKind::Vec, Box::new(n1()))), with_default(fld("t", Ty::Str), Val::s("d"))],
    );
    // optional nested record (made optional by a step), then a sibling
    push("EE3", vec![Step::MadeOptional("x".into())], vec![fld("x", opt(n1())), fld("b", Ty::U8)]);
}

/// sorted enums whose constructor names differ in case, digits and underscores: name order is
/// plain string order (every upper-case letter, digit and '_' sorts before every lower-case letter)
fn mixed_case_enums(out: &mut Vec<Decl>, ext: &mut Vec<(String, String, usize)>) {
    let sets: [&[&str]; 4] = [&["Ok", "OOM", "Done"], &["Io", "IOError", "Zed"], &["Ab", "AC", "A_b", "A1"], &["b", "C", "a", "_a"]];
    for (i, names) in sets.iter().enumerate() {
        for sorted in [true, false] {
            let name = format!("SN{}{}", i, if sorted { "s" } else { "u" });
            let variants: Vec<VariantDescr> = names.iter().map(|n| variant(VKind::Tuple1, n)).collect();
            let ed = EnumDescr { name: name.clone(), sorted, variants };
            out.push(Decl { name: name.clone(), ty: Ty::Enum(Arc::new(ed.clone())), tags: vec!["enum", "mixed_case"], opt_spelling: 0 });
            let xname = format!("{name}X");
            let (x, idx) = extend_enum(&ed, &xname, VKind::Unit);
            // "Zzz" sorts after every name above except lower-case initial ones: use a name that is last
            let mut x = x;
            if sorted {
                x.variants[0].name = "zzz".into();
                x.variants[0].record.name = "zzz".into();
            }
            out.push(Decl { name: xname.clone(), ty: Ty::Enum(Arc::new(x)), tags: vec!["enum", "mixed_case", "extension"], opt_spelling: 0 });
            ext.push((name, xname, idx));
        }
    }
}

pub fn make_enum(name: &str, kinds: &[VKind], sorted: bool) -> Ty {
    Ty::Enum(Arc::new(EnumDescr {
        name: name.into(),
        sorted,
        variants: kinds.iter().enumerate().map(|(i, k)| variant(*k, VNAMES[i])).collect(),
    }))
}

/// `base` extended by one variant that comes after the existing ones in index order:
/// unsorted -> declared last; sorted -> declared *first* under a name that sorts last
pub fn extend_enum(base: &EnumDescr, new_name: &str, kind: VKind) -> (EnumDescr, usize) {
    let mut e = base.clone();
    e.name = new_name.into();
    if base.sorted {
        e.variants.insert(0, variant(kind, "Zzz"));
        (e, 0)
    } else {
        e.variants.push(variant(kind, "Appended"));
        let n = e.variants.len() - 1;
        (e, n)
    }
}

fn enums(out: &mut Vec<Decl>, ext: &mut Vec<(String, String, usize)>) {
    let all = [
        VKind::Unit,
        VKind::Tuple1,
        VKind::Tuple2,
        VKind::Struct,
        VKind::StructEvolved,
        VKind::TupleEvolved,
        VKind::Transient,
        VKind::TupleTransientFirst,
        VKind::StructTransientMid,
    ];
    let small = [VKind::Unit, VKind::Tuple1, VKind::Struct, VKind::Transient];
    let mut shapes: Vec<Vec<VKind>> = Vec::new();
    for a in all {
        shapes.push(vec![a]);
    }
    for a in all {
        for b in all {
            shapes.push(vec![a, b]);
        }
    }
    for a in small {
        for b in small {
            for c in small {
                shapes.push(vec![a, b, c]);
            }
        }
    }
    let mut n = 0usize;
    for sh in &shapes {
        for sorted in [false, true] {
            let name = format!("E{n}");
            n += 1;
            let ty = make_enum(&name, sh, sorted);
            out.push(Decl { name: name.clone(), ty: ty.clone(), tags: vec!["enum"], opt_spelling: 0 });
            // compiled extensions for the 1- and 2-variant enums (the rest through the dynamic driver)
            if sh.len() <= 2 {
                if let Ty::Enum(ed) = &ty {
                    for (j, k) in [VKind::Tuple1, VKind::Unit].iter().enumerate() {
                        if j == 1 && sh.len() == 2 {
                            continue;
                        }
                        let xname = format!("{name}X{j}");
                        let (x, idx) = extend_enum(ed, &xname, *k);
                        out.push(Decl {
                            name: xname.clone(),
                            ty: Ty::Enum(Arc::new(x)),
                            tags: vec!["enum", "extension"],
                            opt_spelling: 0,
                        });
                        ext.push((name.clone(), xname, idx));
                    }
                }
            }
        }
    }
}

pub fn history_bases() -> Vec<Vec<BaseField>> {
    let b = |n: &str, t: Ty| BaseField { name: n.into(), ty: t };
    vec![
        vec![b("a", Ty::U8)],
        vec![b("a", Ty::Str)],
        vec![b("a", opt(Ty::U8))],
        vec![b("a", Ty::U8), b("b", Ty::Str)],
        vec![b("a", Ty::Str), b("b", opt(Ty::U8))],
        vec![b("a", Ty::U16), b("b", Ty::U8)],
        // a field that is optional from the start *before* required ones
        vec![b("a", opt(Ty::U8)), b("b", Ty::U8)],
        // no field at all: a unit struct / unit variant that later gains fields
        vec![],
    ]
}

pub fn history_add_types() -> Vec<(Ty, Val)> {
    vec![(Ty::U8, Val::U(9)), (opt(Ty::U8), Val::some(Val::U(8))), (Ty::Str, Val::s("dflt"))]
}

/// compiled histories: every node of the tree of legal steps up to `depth`
fn histories(u: &mut Universe, depth: usize) {
    let bases = history_bases();
    let adds = history_add_types();
    let mut compiled_bases: Vec<Vec<BaseField>> = bases[..4].to_vec();
    compiled_bases.push(bases[6].clone());
    compiled_bases.push(bases[7].clone());
    let all = evo::enumerate("H", &compiled_bases, &adds[..2], depth, true);
    // one declaration per distinct (history prefix); `all` is in pre-order, so a history's
    // prefixes precede it
    let mut by_steps: HashMap<(Vec<BaseField>, Vec<HStep>), String> = HashMap::new();
    for (hi, h) in all.iter().enumerate() {
        let mut names = Vec::new();
        for k in 0..=h.steps.len() {
            let key = (h.base.clone(), h.steps[..k].to_vec());
            let name = match by_steps.get(&key) {
                Some(n) => n.clone(),
                None => {
                    let name = format!("H{}", by_steps.len());
                    let mut d = h.decl_at(k);
                    d.name = name.clone();
                    u.decls.push(Decl {
                        name: name.clone(),
                        ty: Ty::Record(Arc::new(d)),
                        tags: vec!["history"],
                        // the five spellings rotate over the history declarations, so each one
                        // meets every kind of evolution step
                        opt_spelling: (by_steps.len() % 5) as u8,
                    });
                    by_steps.insert(key, name.clone());
                    name
                }
            };
            names.push(name);
        }
        let _ = hi;
        u.histories.push(h.clone());
        u.hist_decl.push(names);
    }
    // only maximal histories are needed for the (w, r) sweep; keep them all (prefixes are cheap)
}

/// the constructors of an enum evolve like structs do: one enum per version of some histories,
/// whose first constructor is the history's declaration at that version (a unit variant when the
/// declaration has no field, a struct variant otherwise)
fn variant_histories(u: &mut Universe) {
    let mut picked: HashMap<Vec<BaseField>, usize> = HashMap::new();
    for hi in 0..u.histories.len() {
        let h = u.histories[hi].clone();
        // histories that start from nothing (a unit constructor) or from one field and only add
        // fields / make them optional; a few per base
        let simple = h.steps.iter().all(|s| matches!(s, HStep::Add { first: false, .. } | HStep::MakeOptional(_)));
        if !(h.base.len() <= 1 && h.steps.len() == 2 && simple) {
            continue;
        }
        let n = picked.entry(h.base.clone()).or_insert(0);
        *n += 1;
        if *n > 4 {
            continue;
        }
        let mut names = Vec::new();
        for k in 0..=h.steps.len() {
            let mut rd = h.decl_at(k);
            rd.name = "Zed".into();
            let shape = if rd.fields.is_empty() && rd.steps.is_empty() { 0 } else { 2 };
            let name = format!("VH{}V{}", hi, k);
            let ed = EnumDescr {
                name: name.clone(),
                sorted: false,
                variants: vec![
                    VariantDescr { name: "Zed".into(), transient: false, shape, record: rd },
                    variant(VKind::Tuple1, "Mid"),
                ],
            };
            u.decls.push(Decl { name: name.clone(), ty: Ty::Enum(Arc::new(ed)), tags: vec!["enum", "variant_history"], opt_spelling: 0 });
            names.push(name);
        }
        u.variant_hist.push((hi, names));
    }
}

/// large-declaration boundary probes (thorough tier)
fn boundary(out: &mut Vec<Decl>) {
    for n in [127usize, 128, 129, 130] {
        let name = format!("B{n}");
        // n chunk-0 fields, the last one made optional: position byte at the i8 edge
        let mut fields: Vec<FieldDescr> = (0..n).map(|i| fld(&format!("f{i}"), Ty::U8)).collect();
        let last = fields.len() - 1;
        fields[last].ty = opt(Ty::U8);
        fields[last].is_option = true;
        out.push(Decl {
            name: name.clone(),
            ty: rec(&name, vec![Step::MadeOptional(format!("f{last}"))], fields),
            tags: vec!["boundary"],
            opt_spelling: 0,
        });
    }
    {
        // 254 evolution steps (255 with InitialVersion): the documented maximum
        let name = "B254Steps".to_string();
        let mut steps = Vec::new();
        let mut fields = vec![fld("a", Ty::U8)];
        for i in 0..254 {
            let mut f = fld(&format!("n{i}"), Ty::U8);
            f.default = Some(Val::U((i % 200) as u128));
            steps.push(Step::Added(format!("n{i}")));
            fields.push(f);
        }
        out.push(Decl { name: name.clone(), ty: rec(&name, steps, fields), tags: vec!["boundary"], opt_spelling: 0 });
    }
}

pub fn build(thorough: bool) -> Universe {
    let mut u = Universe::default();
    for (name, ty) in [("N0", n0()), ("N1", n1()), ("NE", ne())] {
        u.decls.push(Decl { name: name.into(), ty, tags: vec!["helper"], opt_spelling: 0 });
    }
    structs(&mut u.decls);
    dedup_decls(&mut u.decls);
    nested_evolved(&mut u.decls);
    let mut ext = Vec::new();
    enums(&mut u.decls, &mut ext);
    mixed_case_enums(&mut u.decls, &mut ext);
    discriminant_enums(&mut u.decls, &mut ext);
    u.enum_ext = ext;
    histories(&mut u, if thorough { 3 } else { 2 });
    variant_histories(&mut u);
    if thorough {
        boundary(&mut u.decls);
    }
    u
}

static QUICK: OnceLock<Universe> = OnceLock::new();
static THOROUGH: OnceLock<Universe> = OnceLock::new();

pub fn universe(thorough: bool) -> &'static Universe {
    if thorough {
        THOROUGH.get_or_init(|| build(true))
    } else {
        QUICK.get_or_init(|| build(false))
    }
}

/// descriptor of a generated declaration (called by the generated `Bridge::ty()`)
pub fn decl_ty(name: &str, thorough: bool) -> Ty {
    static IDX_Q: OnceLock<HashMap<String, usize>> = OnceLock::new();
    static IDX_T: OnceLock<HashMap<String, usize>> = OnceLock::new();
    let u = universe(thorough);
    let cell = if thorough { &IDX_T } else { &IDX_Q };
    let idx = cell.get_or_init(|| u.decls.iter().enumerate().map(|(i, d)| (d.name.clone(), i)).collect());
    match idx.get(name) {
        Some(i) => u.decls[*i].ty.clone(),
        None => panic!("spec: unknown declaration {name}"),
    }
}

// ---------------------------------------------------------------------------------------------
// Built-in type expressions (Rust spellings; the descriptor comes from the generic `Bridge` impls)

#[derive(Clone, Debug)]
pub struct Leaf {
    pub rust: &'static str,
    pub hash: bool,
    pub ord: bool,
    pub zero_width: bool,
}

pub fn leaves() -> Vec<Leaf> {
    let l = |rust, hash, ord| Leaf { rust, hash, ord, zero_width: false };
    vec![
        l("u8", true, true),
        l("String", true, true),
        Leaf { rust: "()", hash: true, ord: true, zero_width: true },
        l("u16", true, true),
        l("bool", true, true),
        l("i32", true, true),
        l("i8", true, true),
        l("i16", true, true),
        l("u32", true, true),
        l("u64", true, true),
        l("i64", true, true),
        l("u128", true, true),
        l("i128", true, true),
        l("f32", false, false),
        l("f64", false, false),
        l("char", true, true),
        l("desert::DeduplicatedString", false, false),
        l("std::time::Duration", true, true),
        l("uuid::Uuid", true, true),
        l("bigdecimal::num_bigint::BigInt", true, true),
        l("bigdecimal::BigDecimal", false, false),
        l("chrono::Weekday", false, false),
        l("chrono::Month", false, false),
        l("chrono::FixedOffset", false, false),
        l("chrono_tz::Tz", false, false),
        l("chrono::DateTime<chrono::Utc>", false, false),
        l("chrono::NaiveDate", true, true),
        l("chrono::NaiveTime", false, false),
        l("chrono::NaiveDateTime", false, false),
        l("chrono::DateTime<chrono::Local>", false, false),
        l("chrono::DateTime<chrono::FixedOffset>", false, false),
        l("chrono::DateTime<chrono_tz::Tz>", false, false),
        l("bytes::Bytes", true, true),
        Leaf { rust: "std::marker::PhantomData<u8>", hash: true, ord: true, zero_width: true },
        l("bridge::VarU", true, true),
        l("bridge::VarI", true, true),
    ]
}

#[derive(Clone, Debug)]
pub struct TypeExpr {
    pub rust: String,
    pub hash: bool,
    pub ord: bool,
    /// a container whose element occupies no bytes (decode cost depends on the count alone)
    pub zero_width_elem: bool,
    pub zero_width: bool,
    /// `Vec<T>` of a 'static element: can also be serialized as a slice
    pub vec_of: Option<String>,
    pub depth: usize,
}

const UNARY: [&str; 13] =
    ["Option", "Vec", "Arr0", "Arr1", "Arr2", "Arr3", "Box", "Rc", "Arc", "HashSet", "BTreeSet", "LinkedList", "Tuple1"];

fn apply_unary(c: &str, t: &TypeExpr) -> Option<TypeExpr> {
    let r = &t.rust;
    let mut e = TypeExpr {
        rust: String::new(),
        hash: t.hash,
        ord: t.ord,
        zero_width_elem: false,
        zero_width: false,
        vec_of: None,
        depth: t.depth + 1,
    };
    match c {
        "Option" => e.rust = format!("Option<{r}>"),
        "Vec" => {
            e.rust = format!("Vec<{r}>");
            e.zero_width_elem = t.zero_width;
            if t.depth == 1 {
                e.vec_of = Some(r.clone());
            }
        }
        "Arr0" | "Arr1" | "Arr2" | "Arr3" => {
            let n: usize = c[3..].parse().unwrap();
            e.rust = format!("[{r}; {n}]");
            e.zero_width_elem = t.zero_width && n > 0;
        }
        "Box" | "Rc" | "Arc" => {
            e.rust = format!("std::{}::{c}<{r}>", match c {
                "Box" => "boxed",
                "Rc" => "rc",
                _ => "sync",
            });
            e.zero_width = t.zero_width;
            e.zero_width_elem = t.zero_width_elem;
        }
        "HashSet" => {
            if !t.hash {
                return None;
            }
            e.rust = format!("std::collections::HashSet<{r}>");
            e.hash = false;
            e.ord = false;
            e.zero_width_elem = t.zero_width;
        }
        "BTreeSet" => {
            if !t.ord {
                return None;
            }
            e.rust = format!("std::collections::BTreeSet<{r}>");
            e.zero_width_elem = t.zero_width;
        }
        "LinkedList" => {
            if !t.hash {
                return None;
            }
            e.rust = format!("std::collections::LinkedList<{r}>");
            e.zero_width_elem = t.zero_width;
        }
        "Tuple1" => e.rust = format!("({r},)"),
        _ => unreachable!(),
    }
    Some(e)
}

const BINARY: [&str; 4] = ["Result", "Tuple2", "HashMap", "BTreeMap"];

fn apply_binary(c: &str, a: &TypeExpr, b: &TypeExpr) -> Option<TypeExpr> {
    let mut e = TypeExpr {
        rust: String::new(),
        hash: a.hash && b.hash,
        ord: a.ord && b.ord,
        zero_width_elem: false,
        zero_width: false,
        vec_of: None,
        depth: std::cmp::max(a.depth, b.depth) + 1,
    };
    match c {
        "Result" => e.rust = format!("Result<{}, {}>", a.rust, b.rust),
        "Tuple2" => e.rust = format!("({}, {})", a.rust, b.rust),
        "HashMap" => {
            if !a.hash {
                return None;
            }
            e.rust = format!("std::collections::HashMap<{}, {}>", a.rust, b.rust);
            e.hash = false;
            e.ord = false;
        }
        "BTreeMap" => {
            if !a.ord {
                return None;
            }
            e.rust = format!("std::collections::BTreeMap<{}, {}>", a.rust, b.rust);
        }
        _ => unreachable!(),
    }
    Some(e)
}

pub fn type_exprs(thorough: bool) -> Vec<TypeExpr> {
    let leaf_exprs: Vec<TypeExpr> = leaves()
        .iter()
        .map(|l| TypeExpr {
            rust: l.rust.to_string(),
            hash: l.hash,
            ord: l.ord,
            zero_width_elem: false,
            zero_width: l.zero_width,
            vec_of: None,
            depth: 1,
        })
        .collect();
    let mut out: Vec<TypeExpr> = leaf_exprs.clone();
    // depth 2: every unary over every admissible leaf
    let mut d2u: Vec<TypeExpr> = Vec::new();
    for c in UNARY {
        for l in &leaf_exprs {
            if let Some(e) = apply_unary(c, l) {
                d2u.push(e);
            }
        }
    }
    // depth 2: every binary over a reduced leaf set squared
    let red: Vec<&TypeExpr> = leaf_exprs.iter().take(6).collect();
    let mut d2b: Vec<TypeExpr> = Vec::new();
    for c in BINARY {
        for a in &red {
            for b in &red {
                if let Some(e) = apply_binary(c, a, b) {
                    d2b.push(e);
                }
            }
        }
    }
    out.extend(d2u.iter().cloned());
    out.extend(d2b.iter().cloned());
    // tuples of arity 3..8
    let comps = ["u8", "String", "bool", "u16", "i32", "Option<u8>", "()", "Vec<u8>"];
    for n in 3..=8 {
        let fwd: Vec<&str> = comps[..n].to_vec();
        let mut rev = fwd.clone();
        rev.reverse();
        for cs in [fwd, rev] {
            out.push(TypeExpr {
                rust: format!("({})", cs.join(", ")),
                hash: false,
                ord: false,
                zero_width_elem: false,
                zero_width: false,
                vec_of: None,
                depth: 2,
            });
        }
    }
    // depth 3: unary over unary / binary, over a small leaf set (quick: first 3 leaves and a
    // selection of outer constructors; thorough: first 4 leaves, all constructors)
    let nl = if thorough { 4 } else { 3 };
    let small: Vec<&TypeExpr> = leaf_exprs.iter().take(nl).collect();
    let outer: Vec<&str> = if thorough {
        UNARY.to_vec()
    } else {
        vec!["Option", "Vec", "Arr2", "Box", "BTreeSet", "Tuple1"]
    };
    for c1 in &outer {
        for c2 in UNARY {
            for l in &small {
                if let Some(inner) = apply_unary(c2, l) {
                    if let Some(e) = apply_unary(c1, &inner) {
                        out.push(e);
                    }
                }
            }
        }
        for c2 in BINARY {
            for a in small.iter().take(2) {
                for b in small.iter().take(2) {
                    if let Some(inner) = apply_binary(c2, a, b) {
                        if let Some(e) = apply_unary(c1, &inner) {
                            out.push(e);
                        }
                    }
                }
            }
        }
    }
    if thorough {
        // binary over unary
        for c in BINARY {
            for c2 in ["Option", "Vec", "Arr2", "Tuple1"] {
                for l in small.iter().take(3) {
                    if let Some(inner) = apply_unary(c2, l) {
                        for other in small.iter().take(2) {
                            if let Some(e) = apply_binary(c, other, &inner) {
                                out.push(e);
                            }
                            if let Some(e) = apply_binary(c, &inner, other) {
                                out.push(e);
                            }
                        }
                    }
                }
            }
        }
    }
    // the container-independence family of C12
    for (elem, _) in c12_elements() {
        for c in c12_containers(elem) {
            let vec_of = if c.starts_with("Vec<") { Some(elem.to_string()) } else { None };
            out.push(TypeExpr {
                rust: c,
                hash: false,
                ord: false,
                zero_width_elem: elem == "()",
                zero_width: false,
                vec_of,
                depth: 3,
            });
        }
    }
    for (k, v) in c12_map_types() {
        for c in c12_map_containers(k, v) {
            out.push(TypeExpr { rust: c, hash: false, ord: false, zero_width_elem: false, zero_width: false, vec_of: None, depth: 3 });
        }
    }
    for c in c12_byte_containers() {
        out.push(TypeExpr { rust: c.to_string(), hash: false, ord: false, zero_width_elem: false, zero_width: false, vec_of: if c == "Vec<u8>" { Some("u8".into()) } else { None }, depth: 2 });
    }
    let mut seen = std::collections::HashSet::new();
    // the later (C12) duplicate of a row may carry the slice entry point: keep that one
    let mut merged: Vec<TypeExpr> = Vec::new();
    for e in out {
        if seen.insert(e.rust.clone()) {
            merged.push(e);
        } else if e.vec_of.is_some() {
            if let Some(m) = merged.iter_mut().find(|m| m.rust == e.rust) {
                m.vec_of = e.vec_of;
            }
        }
    }
    merged
}

/// C12: element types (Rust spelling, model type)
pub fn c12_elements() -> Vec<(&'static str, Ty)> {
    vec![
        ("u16", Ty::U16),
        ("String", Ty::Str),
        ("Option<u8>", Ty::Opt(Box::new(Ty::U8))),
        ("(u8, u8)", Ty::Tuple(vec![Ty::U8, Ty::U8])),
        ("()", Ty::Unit),
        // one-byte elements other than u8 must NOT take the byte-array form
        ("i8", Ty::I8),
        ("bool", Ty::Bool),
    ]
}

pub fn c12_containers(elem: &str) -> Vec<String> {
    vec![
        format!("Vec<{elem}>"),
        format!("[{elem}; 0]"),
        format!("[{elem}; 1]"),
        format!("[{elem}; 2]"),
        format!("[{elem}; 3]"),
        format!("std::collections::LinkedList<{elem}>"),
        format!("std::collections::HashSet<{elem}>"),
        format!("std::collections::BTreeSet<{elem}>"),
    ]
}

pub fn c12_map_types() -> Vec<(&'static str, &'static str)> {
    vec![("u8", "u16"), ("String", "String"), ("u8", "String")]
}

pub fn c12_map_containers(k: &str, v: &str) -> Vec<String> {
    vec![
        format!("Vec<({k}, {v})>"),
        format!("std::collections::HashMap<{k}, {v}>"),
        format!("std::collections::BTreeMap<{k}, {v}>"),
    ]
}

pub fn c12_byte_containers() -> Vec<&'static str> {
    vec!["Vec<u8>", "bytes::Bytes", "[u8; 0]", "[u8; 1]", "[u8; 2]", "[u8; 3]"]
}
