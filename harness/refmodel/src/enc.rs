//! Reference encoder: DESIGN.md section 4, written from the format description.
use crate::timeval;
use crate::ty::*;
use crate::wire::*;

#[derive(Clone, Debug, PartialEq, Eq, Hash)]
pub enum EncErr {
    UnsupportedCharacter(u32),
    LengthTooLarge,
    TransientConstructor { type_name: String, constructor: String },
    UnknownFieldReference(String),
    /// the value is outside what the format can express and no error variant is documented
    Unrepresentable(String),
}

/// Alternative legal forms of an encoding (DESIGN 4.2 / 4.5). Each list is consumed in stream
/// order; missing entries mean "canonical".
#[derive(Clone, Debug, Default)]
pub struct Forms {
    /// per sequence: true = unknown-size form (`-1`, flagged items, terminator)
    pub seq_unknown: Vec<bool>,
    /// per repeated dedup string: true = write it in plain form again (leniency 9)
    pub replain: Vec<bool>,
    pub seq_points: usize,
    pub replain_points: usize,
}

pub struct Enc {
    pub strings: Vec<String>,
    pub forms: Forms,
    scope: Scope,
}

pub fn ref_encode(ty: &Ty, v: &Val) -> Result<Buf, EncErr> {
    ref_encode_forms(ty, v, Forms::default()).map(|(b, _)| b)
}

pub fn ref_encode_forms(ty: &Ty, v: &Val, forms: Forms) -> Result<(Buf, Forms), EncErr> {
    let mut e = Enc::new(forms);
    let mut out = Buf::new();
    e.enc(ty, v, &mut out)?;
    Ok((out, e.forms))
}

fn len31(n: usize) -> Result<i32, EncErr> {
    if n > i32::MAX as usize {
        Err(EncErr::LengthTooLarge)
    } else {
        Ok(n as i32)
    }
}

impl Enc {
    pub fn new(forms: Forms) -> Self {
        Enc { strings: Vec::new(), forms, scope: Vec::new() }
    }

    pub fn plain_string(&mut self, s: &str, out: &mut Buf) -> Result<(), EncErr> {
        out.vari(len31(s.len())?, MarkKind::Len);
        out.bytes(s.as_bytes());
        Ok(())
    }

    pub fn dedup_string(&mut self, s: &str, out: &mut Buf) -> Result<(), EncErr> {
        match self.strings.iter().position(|x| x == s) {
            Some(i) => {
                let k = self.forms.replain_points;
                self.forms.replain_points += 1;
                if self.forms.replain.get(k).copied().unwrap_or(false) {
                    self.plain_string(s, out)
                } else {
                    out.vari(-((i + 1) as i32), MarkKind::StrRef);
                    Ok(())
                }
            }
            None => {
                self.strings.push(s.to_string());
                self.plain_string(s, out)
            }
        }
    }

    fn seq<'a>(
        &mut self,
        t: &Ty,
        xs: impl ExactSizeIterator<Item = &'a Val>,
        out: &mut Buf,
    ) -> Result<(), EncErr> {
        let k = self.forms.seq_points;
        self.forms.seq_points += 1;
        if self.forms.seq_unknown.get(k).copied().unwrap_or(false) {
            out.vari(-1, MarkKind::Count);
            for x in xs {
                out.u8m(1, MarkKind::Tag);
                self.enc(t, x, out)?;
            }
            out.u8m(0, MarkKind::Terminator);
        } else {
            out.vari(len31(xs.len())?, MarkKind::Count);
            for x in xs {
                self.enc(t, x, out)?;
            }
        }
        Ok(())
    }

    pub fn enc(&mut self, ty: &Ty, v: &Val, out: &mut Buf) -> Result<(), EncErr> {
        match ty {
            Ty::U8 => out.fixed(&[(v.as_u() as u8)]),
            Ty::I8 => out.fixed(&[(v.as_i() as i8) as u8]),
            Ty::U16 => out.fixed(&(v.as_u() as u16).to_be_bytes()),
            Ty::I16 => out.fixed(&(v.as_i() as i16).to_be_bytes()),
            Ty::U32 => out.fixed(&(v.as_u() as u32).to_be_bytes()),
            Ty::I32 => out.fixed(&(v.as_i() as i32).to_be_bytes()),
            Ty::U64 => out.fixed(&(v.as_u() as u64).to_be_bytes()),
            Ty::I64 => out.fixed(&(v.as_i() as i64).to_be_bytes()),
            Ty::U128 => out.fixed(&v.as_u().to_be_bytes()),
            Ty::I128 => out.fixed(&v.as_i().to_be_bytes()),
            Ty::F32 => match v {
                Val::F32(b) => out.fixed(&b.to_be_bytes()),
                o => panic!("model: F32 {o:?}"),
            },
            Ty::F64 => match v {
                Val::F64(b) => out.fixed(&b.to_be_bytes()),
                o => panic!("model: F64 {o:?}"),
            },
            Ty::Bool => match v {
                Val::Bool(b) => out.u8m(*b as u8, MarkKind::Tag),
                o => panic!("model: Bool {o:?}"),
            },
            Ty::Unit => {}
            Ty::Char => match v {
                Val::Char(c) => {
                    if *c > 0xffff {
                        return Err(EncErr::UnsupportedCharacter(*c));
                    }
                    out.fixed(&(*c as u16).to_be_bytes())
                }
                o => panic!("model: Char {o:?}"),
            },
            Ty::Str | Ty::BigDecimal | Ty::Tz => {
                if matches!(ty, Ty::Tz) {
                    out.u8m(1, MarkKind::Tag);
                }
                self.plain_string(v.as_str(), out)?
            }
            Ty::DedupStr => self.dedup_string(v.as_str(), out)?,
            Ty::VarU32 => out.varu(v.as_u() as u32, MarkKind::Fixed),
            Ty::VarI32 => out.vari(v.as_i() as i32, MarkKind::Fixed),
            Ty::Duration => {
                let xs = v.items();
                out.fixed(&(xs[0].as_u() as u64).to_be_bytes());
                out.fixed(&(xs[1].as_u() as u32).to_be_bytes());
            }
            Ty::Uuid => {
                assert_eq!(v.as_bytes().len(), 16);
                out.fixed(v.as_bytes())
            }
            Ty::BigInt | Ty::ByteVec => {
                let b = v.as_bytes();
                if b.len() > u32::MAX as usize {
                    return Err(EncErr::LengthTooLarge);
                }
                out.varu(b.len() as u32, MarkKind::Len);
                out.bytes(b);
            }
            Ty::ByteArray(n) => {
                let b = v.as_bytes();
                assert_eq!(b.len(), *n);
                out.varu(b.len() as u32, MarkKind::Len);
                out.bytes(b);
            }
            Ty::Weekday | Ty::Month => out.fixed(&[(v.as_u() as i8) as u8]),
            Ty::FixedOffset => {
                out.u8m(0, MarkKind::Tag);
                out.vari(v.as_i() as i32, MarkKind::Fixed);
            }
            Ty::DtUtc => {
                let xs = v.items();
                out.fixed(&(xs[0].as_i() as i64).to_be_bytes());
                out.fixed(&(xs[1].as_u() as u32).to_be_bytes());
            }
            Ty::NaiveDate => timeval::enc_date(v, out),
            Ty::NaiveTime => timeval::enc_time(v, out),
            Ty::NaiveDateTime | Ty::DtLocal => {
                let xs = v.items();
                timeval::enc_date(&xs[0], out);
                timeval::enc_time(&xs[1], out);
            }
            Ty::DtFixed => {
                let xs = v.items();
                self.enc(&Ty::NaiveDateTime, &xs[0], out)?;
                self.enc(&Ty::FixedOffset, &xs[1], out)?;
            }
            Ty::DtTz => {
                let xs = v.items();
                self.enc(&Ty::NaiveDateTime, &xs[0], out)?;
                self.enc(&Ty::Tz, &xs[1], out)?;
            }
            Ty::Opt(t) => match v {
                Val::Opt(None) => out.u8m(0, MarkKind::Tag),
                Val::Opt(Some(x)) => {
                    out.u8m(1, MarkKind::Tag);
                    self.enc(t, x, out)?;
                }
                o => panic!("model: Opt {o:?}"),
            },
            Ty::Res(a, b) => match v {
                Val::Res(Ok(x)) => {
                    out.u8m(1, MarkKind::Tag);
                    self.enc(a, x, out)?;
                }
                Val::Res(Err(x)) => {
                    out.u8m(0, MarkKind::Tag);
                    self.enc(b, x, out)?;
                }
                o => panic!("model: Res {o:?}"),
            },
            Ty::Seq(_, t) => match v {
                Val::Seq(xs) => self.seq(t, xs.iter(), out)?,
                o => panic!("model: Seq {o:?}"),
            },
            Ty::Array(n, t) => match v {
                Val::Seq(xs) => {
                    assert_eq!(xs.len(), *n);
                    self.seq(t, xs.iter(), out)?
                }
                o => panic!("model: Array {o:?}"),
            },
            Ty::Map(_, k, t) => match v {
                Val::Map(xs) => {
                    // a map is a sequence of 2-tuples
                    let pair = Ty::Tuple(vec![(**k).clone(), (**t).clone()]);
                    let items: Vec<Val> =
                        xs.iter().map(|(a, b)| Val::Tuple(vec![a.clone(), b.clone()])).collect();
                    self.seq(&pair, items.iter(), out)?
                }
                o => panic!("model: Map {o:?}"),
            },
            Ty::Tuple(ts) => {
                out.u8m(0, MarkKind::Version);
                for (t, x) in ts.iter().zip(v.items()) {
                    self.enc(t, x, out)?;
                }
            }
            Ty::Named(n) => {
                let t = resolve(&self.scope, n).clone();
                self.enc(&t, v, out)?;
            }
            Ty::Record(rd) => {
                self.scope.push((rd.name.clone(), ty.clone()));
                let r = self.record(rd, v.items(), out);
                self.scope.pop();
                r?
            }
            Ty::Enum(ed) => match v {
                Val::Enum(decl, fields) => {
                    let var = &ed.variants[*decl];
                    if var.transient {
                        return Err(EncErr::TransientConstructor {
                            type_name: ed.name.clone(),
                            constructor: var.name.clone(),
                        });
                    }
                    self.scope.push((ed.name.clone(), ty.clone()));
                    out.u8m(0, MarkKind::Version);
                    out.varu(ed.wire_index(*decl), MarkKind::CtorIdx);
                    let r = self.record(&var.record, fields, out);
                    self.scope.pop();
                    r?
                }
                o => panic!("model: Enum {o:?}"),
            },
        }
        Ok(())
    }

    /// DESIGN 4.3
    pub fn record(&mut self, rd: &RecordDescr, vals: &[Val], out: &mut Buf) -> Result<(), EncErr> {
        let v = rd.version();
        if v > 255 {
            return Err(EncErr::Unrepresentable("more than 255 evolution steps".into()));
        }
        assert_eq!(vals.len(), rd.fields.len(), "model: record arity {}", rd.name);
        if v == 0 {
            out.u8m(0, MarkKind::Version);
            for (i, f) in rd.written_fields() {
                self.enc(&f.ty, &vals[i], out)?;
            }
            return Ok(());
        }
        out.u8m(v as u8, MarkKind::Version);

        // where every written field goes
        let mut counters = vec![0usize; v + 1];
        let mut position: Vec<(String, usize, usize)> = Vec::new();
        for (_, f) in rd.written_fields() {
            let c = rd.generation(&f.name);
            position.push((f.name.clone(), c, counters[c]));
            counters[c] += 1;
        }
        let no_longer_written: Vec<&str> = rd
            .steps
            .iter()
            .filter_map(|s| match s {
                Step::Removed(n) | Step::MadeTransient(n) => Some(n.as_str()),
                _ => None,
            })
            .collect();

        // header entries; names take their string ids here, in step order, before any field
        enum Entry {
            Size(usize),
            Pos(u8),
            Name(Buf),
        }
        let mut entries: Vec<Entry> = Vec::new();
        entries.push(Entry::Size(0));
        for (i, s) in rd.steps.iter().enumerate() {
            let e = match s {
                Step::Added(_) => Entry::Size(i + 1),
                Step::MadeOptional(f) => match position.iter().find(|(n, _, _)| n == f) {
                    Some((_, c, p)) => {
                        if *c == 0 {
                            if *p > 128 {
                                return Err(EncErr::Unrepresentable(format!(
                                    "made-optional position {p} of {f} does not fit the position byte"
                                )));
                            }
                            Entry::Pos((-(*p as i32)) as i8 as u8)
                        } else {
                            Entry::Pos(*c as u8)
                        }
                    }
                    None => {
                        if no_longer_written.contains(&f.as_str()) {
                            let mut b = Buf::new();
                            self.dedup_string(f, &mut b)?;
                            Entry::Name(b)
                        } else {
                            return Err(EncErr::UnknownFieldReference(f.clone()));
                        }
                    }
                },
                Step::Removed(f) | Step::MadeTransient(f) => {
                    let mut b = Buf::new();
                    self.dedup_string(f, &mut b)?;
                    Entry::Name(b)
                }
            };
            entries.push(e);
        }

        // fields, each into the chunk of the step that added it
        let mut chunks: Vec<Buf> = (0..=v).map(|_| Buf::new()).collect();
        for (i, f) in rd.written_fields() {
            let c = rd.generation(&f.name);
            self.enc(&f.ty, &vals[i], &mut chunks[c])?;
        }

        for e in &entries {
            match e {
                Entry::Size(c) => out.vari(len31(chunks[*c].len())?, MarkKind::ChunkSize),
                Entry::Pos(p) => {
                    out.vari(-1, MarkKind::HeaderCode);
                    out.u8m(*p, MarkKind::Position);
                }
                Entry::Name(b) => {
                    out.vari(-2, MarkKind::HeaderCode);
                    out.append(b);
                }
            }
        }
        for c in &chunks {
            out.append(c);
        }
        Ok(())
    }
}
