//! Independent reference model of the desert binary format (DESIGN.md section 4).
//! This crate must not depend on desert: it is the oracle the real library is compared with.
pub mod dec;
pub mod enc;
pub mod evo;
pub mod golden;
pub mod spec;
pub mod tamper;
pub mod timeval;
pub mod ty;
pub mod values;
pub mod wire;

pub use dec::{min_size, ref_decode, Dec};
pub use enc::{ref_encode, ref_encode_forms, Enc, EncErr, Forms};
pub use ty::*;
pub use wire::{Buf, Cur, DecErr, Mark, MarkKind};
