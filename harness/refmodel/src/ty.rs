//! Type descriptors and dynamic values of the reference model.
use std::sync::Arc;

#[derive(Clone, Copy, Debug, PartialEq, Eq, Hash, PartialOrd, Ord)]
pub enum SeqKind {
    Vec,
    List,
    HashSet,
    BTreeSet,
}

#[derive(Clone, Copy, Debug, PartialEq, Eq, Hash, PartialOrd, Ord)]
pub enum MapKind {
    Hash,
    BTree,
}

#[derive(Clone, Debug, PartialEq, Eq, Hash)]
pub enum Ty {
    U8,
    I8,
    U16,
    I16,
    U32,
    I32,
    U64,
    I64,
    U128,
    I128,
    F32,
    F64,
    Bool,
    Unit,
    Char,
    Str,
    DedupStr,
    /// bare unsigned / zig-zag varints (harness newtypes; used by hand-written codecs)
    VarU32,
    VarI32,
    Duration,
    Uuid,
    BigInt,
    BigDecimal,
    Weekday,
    Month,
    FixedOffset,
    Tz,
    DtUtc,
    NaiveDate,
    NaiveTime,
    NaiveDateTime,
    DtLocal,
    DtFixed,
    DtTz,
    /// `Vec<u8>`, `Bytes`: `varu(len) ++ raw`
    ByteVec,
    /// `[u8; N]`
    ByteArray(usize),
    Opt(Box<Ty>),
    Res(Box<Ty>, Box<Ty>),
    Seq(SeqKind, Box<Ty>),
    Array(usize, Box<Ty>),
    Map(MapKind, Box<Ty>, Box<Ty>),
    Tuple(Vec<Ty>),
    Record(Arc<RecordDescr>),
    Enum(Arc<EnumDescr>),
    /// reference to an enclosing record / enum by name (recursive types)
    Named(String),
}

#[derive(Clone, Debug, PartialEq, Eq, Hash)]
pub enum Step {
    Added(String),
    MadeOptional(String),
    Removed(String),
    MadeTransient(String),
}

impl Step {
    pub fn name(&self) -> &str {
        match self {
            Step::Added(n) | Step::MadeOptional(n) | Step::Removed(n) | Step::MadeTransient(n) => n,
        }
    }
}

#[derive(Clone, Debug, PartialEq, Eq, Hash)]
pub struct FieldDescr {
    pub name: String,
    pub ty: Ty,
    /// `#[transient(default)]`: never on the wire, decode yields this value
    pub transient: Option<Val>,
    /// the derive macro treats the field as optional (detection is by type *name*)
    pub is_option: bool,
    /// default of the `FieldAdded` step that introduced the field
    pub default: Option<Val>,
}

#[derive(Clone, Debug, PartialEq, Eq, Hash)]
pub struct RecordDescr {
    pub name: String,
    /// evolution steps after `InitialVersion`
    pub steps: Vec<Step>,
    pub fields: Vec<FieldDescr>,
}

#[derive(Clone, Debug, PartialEq, Eq, Hash)]
pub struct VariantDescr {
    pub name: String,
    pub transient: bool,
    /// 0 = unit, 1 = tuple (fields named field0..), 2 = struct
    pub shape: u8,
    pub record: RecordDescr,
}

#[derive(Clone, Debug, PartialEq, Eq, Hash)]
pub struct EnumDescr {
    pub name: String,
    pub sorted: bool,
    pub variants: Vec<VariantDescr>,
}

impl EnumDescr {
    /// wire index of the variant at declaration position `decl`
    pub fn wire_index(&self, decl: usize) -> u32 {
        self.order().iter().position(|&d| d == decl).unwrap() as u32
    }
    /// declaration positions in wire-index order
    pub fn order(&self) -> Vec<usize> {
        let mut idx: Vec<usize> = (0..self.variants.len()).collect();
        if self.sorted {
            idx.sort_by(|&a, &b| self.variants[a].name.cmp(&self.variants[b].name));
        }
        idx
    }
}

impl RecordDescr {
    pub fn version(&self) -> usize {
        self.steps.len()
    }
    /// chunk (generation) of a field name: index of its `Added` step, else 0
    pub fn generation(&self, name: &str) -> usize {
        // the library collects into a map: the last FieldAdded with this name wins
        let mut g = 0;
        for (i, s) in self.steps.iter().enumerate() {
            if let Step::Added(n) = s {
                if n == name {
                    g = i + 1;
                }
            }
        }
        g
    }
    /// step index (1-based) of the last `MadeOptional(name)`, else 0
    pub fn optional_since(&self, name: &str) -> usize {
        let mut g = 0;
        for (i, s) in self.steps.iter().enumerate() {
            if let Step::MadeOptional(n) = s {
                if n == name {
                    g = i + 1;
                }
            }
        }
        g
    }
    pub fn written_fields(&self) -> impl Iterator<Item = (usize, &FieldDescr)> {
        self.fields.iter().enumerate().filter(|(_, f)| f.transient.is_none())
    }
}

/// Dynamic values. Floats are bit patterns. Sets / maps hold their items in the iteration order
/// of the instance they were taken from.
#[derive(Clone, Debug, PartialEq, Eq, Hash, PartialOrd, Ord)]
pub enum Val {
    U(u128),
    I(i128),
    F32(u32),
    F64(u64),
    Bool(bool),
    Unit,
    Char(u32),
    Str(String),
    Bytes(Vec<u8>),
    Opt(Option<Box<Val>>),
    Res(Result<Box<Val>, Box<Val>>),
    Seq(Vec<Val>),
    Map(Vec<(Val, Val)>),
    Tuple(Vec<Val>),
    /// all declared fields, including transient ones
    Rec(Vec<Val>),
    /// declaration index of the variant, all declared fields
    Enum(usize, Vec<Val>),
}

impl Val {
    pub fn some(v: Val) -> Val {
        Val::Opt(Some(Box::new(v)))
    }
    pub fn none() -> Val {
        Val::Opt(None)
    }
    pub fn s(x: &str) -> Val {
        Val::Str(x.to_string())
    }
    pub fn as_u(&self) -> u128 {
        match self {
            Val::U(x) => *x,
            o => panic!("model: expected U, got {o:?}"),
        }
    }
    pub fn as_i(&self) -> i128 {
        match self {
            Val::I(x) => *x,
            o => panic!("model: expected I, got {o:?}"),
        }
    }
    pub fn as_str(&self) -> &str {
        match self {
            Val::Str(x) => x,
            o => panic!("model: expected Str, got {o:?}"),
        }
    }
    pub fn as_bytes(&self) -> &[u8] {
        match self {
            Val::Bytes(x) => x,
            o => panic!("model: expected Bytes, got {o:?}"),
        }
    }
    pub fn items(&self) -> &[Val] {
        match self {
            Val::Seq(x) | Val::Tuple(x) | Val::Rec(x) => x,
            o => panic!("model: expected items, got {o:?}"),
        }
    }
}

/// scope of enclosing named definitions, innermost last
pub type Scope = Vec<(String, Ty)>;

pub fn resolve<'a>(scope: &'a Scope, name: &str) -> &'a Ty {
    scope
        .iter()
        .rev()
        .find(|(n, _)| n == name)
        .map(|(_, t)| t)
        .unwrap_or_else(|| panic!("model: unresolved type name {name}"))
}

/// Canonical form for comparison: sets sorted and de-duplicated, maps sorted by key with the last
/// value winning, transient fields left as they are.
pub fn canon(ty: &Ty, v: &Val) -> Val {
    let mut scope = Scope::new();
    canon_in(ty, v, &mut scope)
}

fn canon_in(ty: &Ty, v: &Val, scope: &mut Scope) -> Val {
    match (ty, v) {
        (Ty::Named(n), _) => {
            let t = resolve(scope, n).clone();
            canon_in(&t, v, scope)
        }
        (Ty::Opt(t), Val::Opt(o)) => Val::Opt(o.as_ref().map(|x| Box::new(canon_in(t, x, scope)))),
        (Ty::Res(a, b), Val::Res(r)) => Val::Res(match r {
            Ok(x) => Ok(Box::new(canon_in(a, x, scope))),
            Err(x) => Err(Box::new(canon_in(b, x, scope))),
        }),
        (Ty::Seq(k, t), Val::Seq(xs)) => {
            let mut ys: Vec<Val> = xs.iter().map(|x| canon_in(t, x, scope)).collect();
            if matches!(k, SeqKind::HashSet | SeqKind::BTreeSet) {
                ys.sort();
                ys.dedup();
            }
            Val::Seq(ys)
        }
        (Ty::Array(_, t), Val::Seq(xs)) => Val::Seq(xs.iter().map(|x| canon_in(t, x, scope)).collect()),
        (Ty::Map(_, k, t), Val::Map(xs)) => {
            let mut m: std::collections::BTreeMap<Val, Val> = Default::default();
            for (a, b) in xs {
                m.insert(canon_in(k, a, scope), canon_in(t, b, scope));
            }
            Val::Map(m.into_iter().collect())
        }
        (Ty::Tuple(ts), Val::Tuple(xs)) => {
            Val::Tuple(ts.iter().zip(xs).map(|(t, x)| canon_in(t, x, scope)).collect())
        }
        (Ty::Record(rd), Val::Rec(xs)) => {
            scope.push((rd.name.clone(), ty.clone()));
            let r = Val::Rec(rd.fields.iter().zip(xs).map(|(f, x)| canon_in(&f.ty, x, scope)).collect());
            scope.pop();
            r
        }
        (Ty::Enum(ed), Val::Enum(i, xs)) => {
            scope.push((ed.name.clone(), ty.clone()));
            let r = Val::Enum(
                *i,
                ed.variants[*i].record.fields.iter().zip(xs).map(|(f, x)| canon_in(&f.ty, x, scope)).collect(),
            );
            scope.pop();
            r
        }
        _ => v.clone(),
    }
}

/// replace transient fields by their declared defaults (what decode must produce)
pub fn with_transient_defaults(ty: &Ty, v: &Val) -> Val {
    let mut scope = Scope::new();
    wtd(ty, v, &mut scope)
}

fn wtd(ty: &Ty, v: &Val, scope: &mut Scope) -> Val {
    match (ty, v) {
        (Ty::Named(n), _) => {
            let t = resolve(scope, n).clone();
            wtd(&t, v, scope)
        }
        (Ty::Opt(t), Val::Opt(o)) => Val::Opt(o.as_ref().map(|x| Box::new(wtd(t, x, scope)))),
        (Ty::Res(a, b), Val::Res(r)) => Val::Res(match r {
            Ok(x) => Ok(Box::new(wtd(a, x, scope))),
            Err(x) => Err(Box::new(wtd(b, x, scope))),
        }),
        (Ty::Seq(_, t), Val::Seq(xs)) | (Ty::Array(_, t), Val::Seq(xs)) => {
            Val::Seq(xs.iter().map(|x| wtd(t, x, scope)).collect())
        }
        (Ty::Map(_, k, t), Val::Map(xs)) => {
            Val::Map(xs.iter().map(|(a, b)| (wtd(k, a, scope), wtd(t, b, scope))).collect())
        }
        (Ty::Tuple(ts), Val::Tuple(xs)) => Val::Tuple(ts.iter().zip(xs).map(|(t, x)| wtd(t, x, scope)).collect()),
        (Ty::Record(rd), Val::Rec(xs)) => {
            scope.push((rd.name.clone(), ty.clone()));
            let r = Val::Rec(
                rd.fields
                    .iter()
                    .zip(xs)
                    .map(|(f, x)| match &f.transient {
                        Some(d) => d.clone(),
                        None => wtd(&f.ty, x, scope),
                    })
                    .collect(),
            );
            scope.pop();
            r
        }
        (Ty::Enum(ed), Val::Enum(i, xs)) => {
            scope.push((ed.name.clone(), ty.clone()));
            let r = Val::Enum(
                *i,
                ed.variants[*i]
                    .record
                    .fields
                    .iter()
                    .zip(xs)
                    .map(|(f, x)| match &f.transient {
                        Some(d) => d.clone(),
                        None => wtd(&f.ty, x, scope),
                    })
                    .collect(),
            );
            scope.pop();
            r
        }
        _ => v.clone(),
    }
}
