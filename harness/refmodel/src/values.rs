//! Small-scope value domains (DESIGN section 5). Deterministic, ordered simplest / most
//! boundary-relevant first, so truncation keeps the interesting values.
use crate::ty::*;

#[derive(Clone, Copy, Debug)]
pub struct Params {
    /// representatives per leaf under a constructor
    pub leaf_k: usize,
    /// maximal container length
    pub seq_len: usize,
    /// element representatives inside containers
    pub elem_k: usize,
    /// cap on the number of values per type (products are trimmed component-wise)
    pub cap: usize,
    /// recursion budget for self-referential types
    pub rec_depth: usize,
}

impl Params {
    pub fn quick() -> Self {
        Params { leaf_k: 4, seq_len: 2, elem_k: 3, cap: 600, rec_depth: 2 }
    }
    pub fn thorough() -> Self {
        Params { leaf_k: 6, seq_len: 3, elem_k: 4, cap: 6000, rec_depth: 2 }
    }
}

fn uints(bits: u32) -> Vec<u128> {
    let max: u128 = if bits == 128 { u128::MAX } else { (1u128 << bits) - 1 };
    let mut v: Vec<u128> = vec![0, 1, max, max >> 1, (max >> 1) + 1, 2, 0x7f, 0x80, 0xff, 0x100];
    for k in 0..bits {
        v.push(1u128 << k);
    }
    let mut k = 7;
    while k < bits {
        v.push((1u128 << k) - 1);
        k += 7;
    }
    v.push(0xa5a5_a5a5_a5a5_a5a5_a5a5_a5a5_a5a5_a5a5 & max);
    v.push(0x0102_0304_0506_0708_090a_0b0c_0d0e_0f10 & max);
    let mut seen = std::collections::HashSet::new();
    v.retain(|x| *x <= max && seen.insert(*x));
    v
}

fn sints(bits: u32) -> Vec<i128> {
    let max: i128 = if bits == 128 { i128::MAX } else { (1i128 << (bits - 1)) - 1 };
    let min: i128 = -max - 1;
    let mut v: Vec<i128> = vec![0, -1, 1, min, max, -2, 2, 63, 64, -64, -65, 127, -128];
    for k in 0..bits - 1 {
        v.push(1i128 << k);
        v.push(-(1i128 << k));
    }
    v.push(0x0102_0304_0506_0708_090a_0b0c_0d0e_0f10 & max);
    let mut seen = std::collections::HashSet::new();
    v.retain(|x| *x <= max && *x >= min && seen.insert(*x));
    v
}

pub fn strings() -> Vec<String> {
    let mut v: Vec<String> = vec![
        "".into(),
        "a".into(),
        "é".into(),
        "zz".into(),
        "€uro".into(),
        "😀".into(),
        "hello world".into(),
        "\u{0}".into(),
        "x".repeat(63),
        "x".repeat(64),
        "é".repeat(100),
    ];
    v.push("y".repeat(8191));
    v.push("y".repeat(8192));
    v
}

pub fn tz_names() -> Vec<&'static str> {
    vec!["UTC", "Europe/Budapest", "America/New_York", "Asia/Kolkata", "Australia/Lord_Howe", "Pacific/Apia"]
}

fn date(y: i32, m: u32, d: u32) -> Val {
    Val::Tuple(vec![Val::I(y as i128), Val::U(m as u128), Val::U(d as u128)])
}
fn time(h: u32, m: u32, s: u32, n: u32) -> Val {
    Val::Tuple(vec![Val::U(h as u128), Val::U(m as u128), Val::U(s as u128), Val::U(n as u128)])
}

pub fn dates() -> Vec<Val> {
    vec![
        date(1970, 1, 1),
        date(2024, 2, 29),
        date(-1, 12, 31),
        date(262142, 12, 31),
        date(-262143, 1, 1),
        date(0, 1, 1),
        date(1999, 12, 31),
        date(127, 6, 15),
        date(128, 6, 15),
        date(16384, 1, 1),
    ]
}

pub fn times() -> Vec<Val> {
    vec![
        time(0, 0, 0, 0),
        time(23, 59, 59, 999_999_999),
        time(23, 59, 59, 1_999_999_999), // leap second representation
        time(12, 30, 15, 1),
        time(1, 2, 3, 127),
        time(1, 2, 3, 128),
        time(1, 2, 3, 16384),
    ]
}

/// calendar-safe dates for types that add an offset (avoid the extreme years there)
fn mid_dates() -> Vec<Val> {
    vec![date(1970, 1, 1), date(2024, 2, 29), date(-1, 12, 31), date(1999, 12, 31), date(9999, 12, 31), date(1, 1, 1)]
}

fn datetimes(ds: &[Val]) -> Vec<Val> {
    let ts = times();
    let mut out = Vec::new();
    for (i, d) in ds.iter().enumerate() {
        out.push(Val::Tuple(vec![d.clone(), ts[i % ts.len()].clone()]));
    }
    for t in &ts {
        out.push(Val::Tuple(vec![ds[0].clone(), t.clone()]));
    }
    out.dedup();
    let mut seen = std::collections::HashSet::new();
    out.retain(|x| seen.insert(x.clone()));
    out
}

/// full ordered domain of representatives of a leaf type
const CHAR_HEAD: [u32; 11] = [0x61, 0, 0xe9, 0x7f, 0x80, 0x7ff, 0x800, 0xd7ff, 0xe000, 0xffff, 0x20ac];

pub fn leaf_values(ty: &Ty) -> Vec<Val> {
    match ty {
        Ty::U8 => {
            let mut v: Vec<u128> = vec![0, 1, 255, 127, 128, 2];
            for x in 0..256u128 {
                if !v.contains(&x) {
                    v.push(x);
                }
            }
            v.into_iter().map(Val::U).collect()
        }
        Ty::I8 => {
            let mut v: Vec<i128> = vec![0, -1, 1, -128, 127, 63, 64, -64, -65];
            for x in -128..128i128 {
                if !v.contains(&x) {
                    v.push(x);
                }
            }
            v.into_iter().map(Val::I).collect()
        }
        Ty::VarU32 => uints(32).into_iter().map(Val::U).collect(),
        Ty::VarI32 => sints(32).into_iter().map(Val::I).collect(),
        Ty::U16 => uints(16).into_iter().map(Val::U).collect(),
        Ty::U32 => uints(32).into_iter().map(Val::U).collect(),
        Ty::U64 => uints(64).into_iter().map(Val::U).collect(),
        Ty::U128 => uints(128).into_iter().map(Val::U).collect(),
        Ty::I16 => sints(16).into_iter().map(Val::I).collect(),
        Ty::I32 => sints(32).into_iter().map(Val::I).collect(),
        Ty::I64 => sints(64).into_iter().map(Val::I).collect(),
        Ty::I128 => sints(128).into_iter().map(Val::I).collect(),
        Ty::F32 => {
            let mut v: Vec<u32> = vec![
                0,
                0x8000_0000,
                1.0f32.to_bits(),
                (-1.0f32).to_bits(),
                0x7fc0_0000, // quiet NaN
                0x7f80_0001, // signalling NaN, payload 1
                0xffc1_2345, // negative NaN with payload
                f32::INFINITY.to_bits(),
                f32::NEG_INFINITY.to_bits(),
                f32::MAX.to_bits(),
                f32::MIN_POSITIVE.to_bits(),
                1, // subnormal
                3.14f32.to_bits(),
            ];
            for k in 0..32 {
                v.push(1u32 << k);
            }
            let mut seen = std::collections::HashSet::new();
            v.retain(|x| seen.insert(*x));
            v.into_iter().map(Val::F32).collect()
        }
        Ty::F64 => {
            let mut v: Vec<u64> = vec![
                0,
                0x8000_0000_0000_0000,
                1.0f64.to_bits(),
                (-1.0f64).to_bits(),
                0x7ff8_0000_0000_0000,
                0x7ff0_0000_0000_0001,
                0xfff8_0000_dead_beef,
                f64::INFINITY.to_bits(),
                f64::NEG_INFINITY.to_bits(),
                f64::MAX.to_bits(),
                f64::MIN_POSITIVE.to_bits(),
                1,
                0.1234e-10f64.to_bits(),
            ];
            for k in 0..64 {
                v.push(1u64 << k);
            }
            let mut seen = std::collections::HashSet::new();
            v.retain(|x| seen.insert(*x));
            v.into_iter().map(Val::F64).collect()
        }
        Ty::Bool => vec![Val::Bool(false), Val::Bool(true)],
        Ty::Unit => vec![Val::Unit],
        Ty::Char => {
            let mut v: Vec<u32> = CHAR_HEAD.to_vec();
            let mut seen: std::collections::HashSet<u32> = v.iter().copied().collect();
            for c in 0..=0xffffu32 {
                if (0xd800..=0xdfff).contains(&c) {
                    continue;
                }
                if seen.insert(c) {
                    v.push(c);
                }
            }
            v.into_iter().map(Val::Char).collect()
        }
        Ty::Str | Ty::DedupStr => strings().into_iter().map(Val::Str).collect(),
        Ty::Duration => vec![
            Val::Tuple(vec![Val::U(0), Val::U(0)]),
            Val::Tuple(vec![Val::U(u64::MAX as u128), Val::U(999_999_999)]),
            Val::Tuple(vec![Val::U(1), Val::U(1)]),
            Val::Tuple(vec![Val::U(0x0102030405060708), Val::U(0x090a0b0c % 1_000_000_000)]),
            Val::Tuple(vec![Val::U(0), Val::U(999_999_999)]),
            Val::Tuple(vec![Val::U(u64::MAX as u128), Val::U(0)]),
        ],
        Ty::Uuid => vec![
            Val::Bytes(vec![0; 16]),
            Val::Bytes(vec![0xff; 16]),
            Val::Bytes((1..=16).collect()),
            Val::Bytes(vec![0xd9, 0x0c, 0x42, 0x85, 0x54, 0x4d, 0x42, 0x4d, 0x88, 0x5c, 0x39, 0x40, 0xfe, 0x00, 0x88, 0x3d]),
        ],
        Ty::BigInt => {
            let mut v: Vec<Vec<u8>> = vec![
                vec![0],
                vec![1],
                vec![0xff],       // -1
                vec![0x7f],       // 127
                vec![0x80],       // -128
                vec![0x00, 0x80], // 128
                vec![0xff, 0x7f], // -129
                vec![0x00, 0xff], // 255
                vec![0x01, 0x00], // 256
                vec![0xff, 0x00], // -256
            ];
            let mut two64 = vec![1u8];
            two64.extend_from_slice(&[0; 8]);
            v.push(two64);
            let mut m127 = vec![0x80u8];
            m127.extend_from_slice(&[0; 15]);
            v.push(m127);
            let mut big = vec![0x12u8];
            big.extend((0..130).map(|i| (i * 7 + 3) as u8));
            v.push(big);
            v.into_iter().map(Val::Bytes).collect()
        }
        Ty::BigDecimal => ["0", "1", "-1", "3.14", "-0.001", "123456789012345678901234567890.123456789", "1E+10", "1e-7"]
            .iter()
            .map(|s| Val::Str(crate::timeval::bigdecimal_canon(s).unwrap()))
            .collect(),
        Ty::Weekday => (1..=7).map(Val::U).collect(),
        Ty::Month => (1..=12).map(Val::U).collect(),
        Ty::FixedOffset => [0, 3600, -3600, 86_399, -86_399, 1, -1, 63, 64, -64, -65, 19800]
            .iter()
            .map(|x| Val::I(*x))
            .collect(),
        Ty::Tz => tz_names().into_iter().map(Val::s).collect(),
        Ty::DtUtc => vec![
            Val::Tuple(vec![Val::I(0), Val::U(0)]),
            Val::Tuple(vec![Val::I(-1), Val::U(999_999_999)]),
            Val::Tuple(vec![Val::I(1_700_000_000), Val::U(123)]),
            Val::Tuple(vec![Val::I(8_210_266_876_799), Val::U(999_999_999)]),
            Val::Tuple(vec![Val::I(-8_334_601_228_800), Val::U(0)]),
            Val::Tuple(vec![Val::I(59), Val::U(1_500_000_000)]),
        ],
        Ty::NaiveDate => dates(),
        Ty::NaiveTime => times(),
        Ty::NaiveDateTime => datetimes(&dates()),
        Ty::DtLocal => datetimes(&mid_dates()),
        Ty::DtFixed => {
            let offs = [0i128, 3600, -3600, 86_399, -86_399, 19800];
            let mut v: Vec<Val> = datetimes(&mid_dates())
                .into_iter()
                .enumerate()
                .map(|(i, dt)| Val::Tuple(vec![dt, Val::I(offs[i % offs.len()])]))
                .collect();
            // the ends of the calendar, with an offset that keeps the instant representable (a
            // one-byte change of the offset does not)
            v.push(Val::Tuple(vec![Val::Tuple(vec![date(262142, 12, 31), time(23, 30, 0, 0)]), Val::I(3600)]));
            v.push(Val::Tuple(vec![Val::Tuple(vec![date(-262143, 1, 1), time(0, 30, 0, 0)]), Val::I(-3600)]));
            v
        }
        Ty::DtTz => {
            let tz = tz_names();
            datetimes(&mid_dates())
                .into_iter()
                .enumerate()
                .map(|(i, dt)| Val::Tuple(vec![dt, Val::s(tz[i % tz.len()])]))
                .collect()
        }
        Ty::ByteVec => vec![
            Val::Bytes(vec![]),
            Val::Bytes(vec![0]),
            Val::Bytes(vec![1, 2, 3]),
            Val::Bytes(vec![0xff; 5]),
            Val::Bytes(vec![7; 127]),
            Val::Bytes(vec![8; 128]),
            Val::Bytes((0..=255).collect()),
            Val::Bytes(vec![9; 16384]),
        ],
        Ty::ByteArray(n) => {
            let mut v = vec![
                Val::Bytes(vec![0; *n]),
                Val::Bytes((1..=*n as u32).map(|x| x as u8).collect()),
                Val::Bytes(vec![0xff; *n]),
                Val::Bytes((0..*n as u32).map(|x| (x as u8).wrapping_mul(37).wrapping_add(0x80)).collect()),
            ];
            let mut seen = std::collections::HashSet::new();
            v.retain(|x| seen.insert(x.clone()));
            v
        }
        other => panic!("leaf_values: not a leaf: {other:?}"),
    }
}

pub fn is_leaf(ty: &Ty) -> bool {
    !matches!(
        ty,
        Ty::Opt(_)
            | Ty::Res(_, _)
            | Ty::Seq(_, _)
            | Ty::Array(_, _)
            | Ty::Map(_, _, _)
            | Ty::Tuple(_)
            | Ty::Record(_)
            | Ty::Enum(_)
            | Ty::Named(_)
    )
}

/// component-wise trimmed cartesian product
fn product(mut lists: Vec<Vec<Val>>, cap: usize) -> Vec<Vec<Val>> {
    if lists.iter().any(|l| l.is_empty()) {
        return vec![];
    }
    loop {
        let mut p: usize = 1;
        for l in &lists {
            p = p.saturating_mul(l.len());
        }
        if p <= cap {
            break;
        }
        // shorten the longest list
        let (i, _) = lists.iter().enumerate().max_by_key(|(i, l)| (l.len(), usize::MAX - *i)).unwrap();
        if lists[i].len() <= 1 {
            break;
        }
        lists[i].pop();
    }
    let mut out: Vec<Vec<Val>> = vec![vec![]];
    for l in &lists {
        let mut next = Vec::with_capacity(out.len() * l.len());
        for prefix in &out {
            for x in l {
                let mut p = prefix.clone();
                p.push(x.clone());
                next.push(p);
            }
        }
        out = next;
    }
    out
}

fn sequences(elems: &[Val], max_len: usize, cap: usize) -> Vec<Vec<Val>> {
    let mut out: Vec<Vec<Val>> = vec![vec![]];
    let mut frontier: Vec<Vec<Val>> = vec![vec![]];
    for _ in 0..max_len {
        let mut next = Vec::new();
        for p in &frontier {
            for e in elems {
                if out.len() + next.len() >= cap {
                    break;
                }
                let mut q = p.clone();
                q.push(e.clone());
                next.push(q);
            }
        }
        out.extend(next.iter().cloned());
        frontier = next;
        if frontier.is_empty() {
            break;
        }
    }
    out
}

/// all values of the small-scope domain of `ty`. `top` = the type is not under a constructor
/// (full leaf domain for small leaves).
pub fn values(ty: &Ty, p: &Params) -> Vec<Val> {
    let mut scope: Vec<(String, Ty, usize)> = Vec::new();
    vals(ty, p, true, &mut scope)
}

/// like `values`, but a leaf type at the top gets the truncated domain too
pub fn values_small(ty: &Ty, p: &Params) -> Vec<Val> {
    let mut scope: Vec<(String, Ty, usize)> = Vec::new();
    vals(ty, p, false, &mut scope)
}

fn vals(ty: &Ty, p: &Params, top: bool, scope: &mut Vec<(String, Ty, usize)>) -> Vec<Val> {
    if is_leaf(ty) {
        if !top && *ty == Ty::Char && p.leaf_k <= CHAR_HEAD.len() {
            // the same prefix without building the 63 488-element domain
            return CHAR_HEAD[..p.leaf_k].iter().map(|c| Val::Char(*c)).collect();
        }
        let all = leaf_values(ty);
        if top {
            return all;
        }
        return all.into_iter().take(p.leaf_k).collect();
    }
    match ty {
        Ty::Opt(t) => {
            let mut out = vec![Val::Opt(None)];
            out.extend(vals(t, p, false, scope).into_iter().map(Val::some));
            out
        }
        Ty::Res(a, b) => {
            let mut out: Vec<Val> = vals(a, p, false, scope).into_iter().map(|x| Val::Res(Ok(Box::new(x)))).collect();
            out.extend(vals(b, p, false, scope).into_iter().map(|x| Val::Res(Err(Box::new(x)))));
            out
        }
        Ty::Seq(_, t) => {
            let e: Vec<Val> = vals(t, p, false, scope).into_iter().take(p.elem_k).collect();
            sequences(&e, p.seq_len, p.cap).into_iter().map(Val::Seq).collect()
        }
        Ty::Array(n, t) => {
            let e: Vec<Val> = vals(t, p, false, scope).into_iter().take(p.elem_k).collect();
            product((0..*n).map(|_| e.clone()).collect(), p.cap).into_iter().map(Val::Seq).collect()
        }
        Ty::Map(_, k, t) => {
            let ks: Vec<Val> = vals(k, p, false, scope).into_iter().take(p.elem_k).collect();
            let vs: Vec<Val> = vals(t, p, false, scope).into_iter().take(2).collect();
            let mut pairs = Vec::new();
            for a in &ks {
                for b in &vs {
                    pairs.push(Val::Tuple(vec![a.clone(), b.clone()]));
                }
            }
            sequences(&pairs, p.seq_len, p.cap)
                .into_iter()
                .map(|s| {
                    // keys must be distinct in a map value (the last one would win)
                    let mut seen = std::collections::HashSet::new();
                    let mut items = Vec::new();
                    for pr in s {
                        if let Val::Tuple(ab) = pr {
                            if seen.insert(ab[0].clone()) {
                                items.push((ab[0].clone(), ab[1].clone()));
                            }
                        }
                    }
                    Val::Map(items)
                })
                .collect::<std::collections::BTreeSet<_>>()
                .into_iter()
                .collect()
        }
        Ty::Tuple(ts) => {
            let lists = ts.iter().map(|t| vals(t, p, false, scope)).collect();
            product(lists, p.cap).into_iter().map(Val::Tuple).collect()
        }
        Ty::Named(n) => {
            let pos = scope.iter().rposition(|(m, _, _)| m == n).unwrap_or_else(|| panic!("unresolved {n}"));
            if scope[pos].2 == 0 {
                return vec![];
            }
            scope[pos].2 -= 1;
            let t = scope[pos].1.clone();
            let r = vals(&t, p, false, scope);
            scope[pos].2 += 1;
            r
        }
        Ty::Record(rd) => {
            let pushed = push_scope(scope, &rd.name, ty, p);
            let lists = rd
                .fields
                .iter()
                .map(|f| {
                    let mut v = vals(&f.ty, p, false, scope);
                    if let Some(d) = &f.transient {
                        // transient fields: something different from the default must be tried
                        v.retain(|x| x != d);
                        v.truncate(2);
                        v.insert(0, d.clone());
                    }
                    v
                })
                .collect();
            let r = product(lists, p.cap).into_iter().map(Val::Rec).collect();
            if pushed {
                scope.pop();
            }
            r
        }
        Ty::Enum(ed) => {
            let pushed = push_scope(scope, &ed.name, ty, p);
            let mut out = Vec::new();
            let per = std::cmp::max(1, p.cap / std::cmp::max(1, ed.variants.len()));
            for (i, var) in ed.variants.iter().enumerate() {
                let lists = var.record.fields.iter().map(|f| vals(&f.ty, p, false, scope)).collect();
                for fs in product(lists, per) {
                    out.push(Val::Enum(i, fs));
                }
            }
            if pushed {
                scope.pop();
            }
            out
        }
        _ => unreachable!(),
    }
}

fn push_scope(scope: &mut Vec<(String, Ty, usize)>, name: &str, ty: &Ty, p: &Params) -> bool {
    // entering the same named type again through a Named reference must not reset its budget
    if scope.iter().any(|(n, _, _)| n == name) {
        false
    } else {
        scope.push((name.to_string(), ty.clone(), p.rec_depth));
        true
    }
}
