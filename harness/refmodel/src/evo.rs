//! Evolution histories, the declaration at each version, and the semantic outcome oracle
//! `expected(H, w, r, v)` of DESIGN 4.8 (computed on values, never on bytes).
use crate::ty::*;

#[derive(Clone, Debug, PartialEq, Eq, Hash)]
pub enum HStep {
    Add { name: String, ty: Ty, default: Val, first: bool },
    MakeOptional(String),
    Remove(String),
    MakeTransient { name: String, default: Val },
}

#[derive(Clone, Debug, PartialEq, Eq, Hash)]
pub struct BaseField {
    pub name: String,
    pub ty: Ty,
}

#[derive(Clone, Debug, PartialEq, Eq, Hash)]
pub struct History {
    pub name: String,
    pub base: Vec<BaseField>,
    pub steps: Vec<HStep>,
}

#[derive(Clone, Debug, PartialEq, Eq, Hash)]
pub enum EvoErr {
    FieldRemoved(String),
    SerializedAsNone(String),
}

fn is_opt(ty: &Ty) -> bool {
    matches!(ty, Ty::Opt(_))
}

impl History {
    pub fn len(&self) -> usize {
        self.steps.len()
    }

    /// the declaration a developer would write at version `k` (first `k` steps applied)
    pub fn decl_at(&self, k: usize) -> RecordDescr {
        let mut fields: Vec<FieldDescr> = self
            .base
            .iter()
            .map(|b| FieldDescr {
                name: b.name.clone(),
                ty: b.ty.clone(),
                transient: None,
                is_option: is_opt(&b.ty),
                default: None,
            })
            .collect();
        let mut steps = Vec::new();
        for s in &self.steps[..k] {
            match s {
                HStep::Add { name, ty, default, first } => {
                    let f = FieldDescr {
                        name: name.clone(),
                        ty: ty.clone(),
                        transient: None,
                        is_option: is_opt(ty),
                        default: Some(default.clone()),
                    };
                    if *first {
                        fields.insert(0, f);
                    } else {
                        fields.push(f);
                    }
                    steps.push(Step::Added(name.clone()));
                }
                HStep::MakeOptional(n) => {
                    let f = fields.iter_mut().find(|f| &f.name == n).expect("legal history");
                    f.ty = Ty::Opt(Box::new(f.ty.clone()));
                    f.is_option = true;
                    if let Some(d) = f.default.take() {
                        f.default = Some(Val::some(d));
                    }
                    steps.push(Step::MadeOptional(n.clone()));
                }
                HStep::Remove(n) => {
                    fields.retain(|f| &f.name != n);
                    steps.push(Step::Removed(n.clone()));
                }
                HStep::MakeTransient { name, default } => {
                    let f = fields.iter_mut().find(|f| &f.name == name).expect("legal history");
                    f.transient = Some(default.clone());
                    steps.push(Step::MadeTransient(name.clone()));
                }
            }
        }
        RecordDescr { name: format!("{}V{}", self.name, k), steps, fields }
    }

    /// field names currently written (declaration order), with chunk, at version k
    fn written_at(&self, k: usize) -> Vec<(String, usize)> {
        let d = self.decl_at(k);
        d.written_fields().map(|(_, f)| (f.name.clone(), d.generation(&f.name))).collect()
    }

    /// steps that may legally follow version `k` (DESIGN section 5 "Histories")
    pub fn legal_next(&self, add_types: &[(Ty, Val)], allow_first: bool) -> Vec<HStep> {
        let k = self.steps.len();
        let d = self.decl_at(k);
        let written = self.written_at(k);
        let mut out = Vec::new();
        let n_added = self.steps.iter().filter(|s| matches!(s, HStep::Add { .. })).count();
        for (ty, default) in add_types {
            let name = format!("n{}", n_added);
            out.push(HStep::Add { name: name.clone(), ty: ty.clone(), default: default.clone(), first: false });
            if allow_first {
                out.push(HStep::Add { name, ty: ty.clone(), default: default.clone(), first: true });
            }
        }
        for (_, f) in d.written_fields() {
            if !is_opt(&f.ty) {
                out.push(HStep::MakeOptional(f.name.clone()));
            }
        }
        // a removed / transient field must be the last one serialized in its chunk
        for (i, (name, chunk)) in written.iter().enumerate() {
            let last_in_chunk = !written[i + 1..].iter().any(|(_, c)| c == chunk);
            if last_in_chunk {
                out.push(HStep::Remove(name.clone()));
                let f = d.fields.iter().find(|f| &f.name == name).unwrap();
                out.push(HStep::MakeTransient { name: name.clone(), default: transient_default(&f.ty) });
            }
        }
        out
    }

    /// was `name` taken off the wire (removed or made transient) by a step <= k
    fn gone_at(&self, name: &str, k: usize) -> bool {
        self.steps[..k].iter().any(|s| match s {
            HStep::Remove(n) => n == name,
            HStep::MakeTransient { name: n, .. } => n == name,
            _ => false,
        })
    }

    fn added_step(&self, name: &str) -> usize {
        self.steps
            .iter()
            .position(|s| matches!(s, HStep::Add { name: n, .. } if n == name))
            .map(|i| i + 1)
            .unwrap_or(0)
    }

    /// DESIGN 4.8. `v` is a value of `decl_at(w)`; the result is a value of `decl_at(r)`.
    pub fn expected(&self, w: usize, r: usize, v: &Val) -> Result<Val, EvoErr> {
        let dw = self.decl_at(w);
        let dr = self.decl_at(r);
        let vw = v.items();
        let mut out = Vec::new();
        for f in &dr.fields {
            if let Some(d) = &f.transient {
                out.push(d.clone());
                continue;
            }
            if self.gone_at(&f.name, w) {
                if is_opt(&f.ty) {
                    out.push(Val::none());
                    continue;
                }
                return Err(EvoErr::FieldRemoved(f.name.clone()));
            }
            if self.added_step(&f.name) > w {
                out.push(f.default.clone().expect("added field has a default"));
                continue;
            }
            let iw = dw.fields.iter().position(|g| g.name == f.name).expect("field present in writer");
            let fw = &dw.fields[iw];
            let x = &vw[iw];
            let converted = if fw.ty == f.ty {
                x.clone()
            } else if f.ty == Ty::Opt(Box::new(fw.ty.clone())) {
                Val::some(x.clone())
            } else if fw.ty == Ty::Opt(Box::new(f.ty.clone())) {
                match x {
                    Val::Opt(Some(y)) => (**y).clone(),
                    Val::Opt(None) => return Err(EvoErr::SerializedAsNone(f.name.clone())),
                    o => panic!("model: optional field value {o:?}"),
                }
            } else {
                panic!("model: field {} changes type {:?} -> {:?}", f.name, fw.ty, f.ty)
            };
            out.push(converted);
        }
        Ok(Val::Rec(out))
    }

    /// DESIGN section 9: reader `r` drops a field that version-0 data still carries
    pub fn framing_gap(&self, w: usize, r: usize) -> bool {
        if w != 0 {
            return false;
        }
        self.base.iter().any(|b| self.gone_at(&b.name, r))
    }
}

/// a default for a transient field that differs from every enumerated value of the type
pub fn transient_default(ty: &Ty) -> Val {
    match ty {
        Ty::U8 => Val::U(77),
        Ty::U16 => Val::U(7777),
        Ty::Str | Ty::DedupStr => Val::s("<transient>"),
        Ty::Opt(t) => Val::some(transient_default(t)),
        Ty::Bool => Val::Bool(true),
        Ty::Unit => Val::Unit,
        Ty::I32 => Val::I(-777),
        Ty::U32 => Val::U(777_777),
        Ty::U64 => Val::U(777_777_777),
        Ty::ByteVec => Val::Bytes(vec![7, 7, 7, 7, 7, 7, 7]),
        Ty::Seq(_, _) => Val::Seq(vec![]),
        Ty::Tuple(ts) => Val::Tuple(ts.iter().map(transient_default).collect()),
        other => panic!("transient_default: unsupported {other:?}"),
    }
}

/// all histories of length <= depth over the given bases (tree of legal steps, pre-order)
pub fn enumerate(
    name: &str,
    bases: &[Vec<BaseField>],
    add_types: &[(Ty, Val)],
    depth: usize,
    allow_first: bool,
) -> Vec<History> {
    let mut out = Vec::new();
    for b in bases {
        let h = History { name: name.to_string(), base: b.clone(), steps: vec![] };
        grow(h, add_types, depth, allow_first, &mut out);
    }
    out
}

fn grow(h: History, add_types: &[(Ty, Val)], depth: usize, allow_first: bool, out: &mut Vec<History>) {
    out.push(h.clone());
    if h.steps.len() >= depth {
        return;
    }
    for s in h.legal_next(add_types, allow_first) {
        let mut g = h.clone();
        g.steps.push(s);
        grow(g, add_types, depth, allow_first, out);
    }
}

/// only the leaves-and-all: histories that are maximal (length == depth or no legal step);
/// every (w, r) pair along a maximal history covers all its prefixes
pub fn maximal(hs: &[History], depth: usize) -> Vec<History> {
    hs.iter().filter(|h| h.steps.len() == depth).cloned().collect()
}
