//! Byte-level primitives of the format: varints, buffers with a layout map.

pub fn zigzag(n: i32) -> u32 {
    ((n << 1) ^ (n >> 31)) as u32
}

pub fn unzigzag(r: u32) -> i32 {
    ((r >> 1) as i32) ^ -((r & 1) as i32)
}

/// minimal unsigned base-128 little-endian-group encoding
pub fn varu(mut n: u32) -> Vec<u8> {
    let mut out = Vec::with_capacity(5);
    loop {
        let g = (n & 0x7f) as u8;
        n >>= 7;
        if n == 0 {
            out.push(g);
            return out;
        }
        out.push(g | 0x80);
    }
}

pub fn vari(n: i32) -> Vec<u8> {
    varu(zigzag(n))
}

/// number of bytes the minimal encoding must have
pub fn varu_len(n: u32) -> usize {
    let bits = 32 - n.leading_zeros() as usize;
    std::cmp::max(1, (bits + 6) / 7)
}

/// over-long (non-minimal) encoding of `n` in exactly `len` bytes (len >= minimal, <= 5)
pub fn varu_padded(n: u32, len: usize) -> Vec<u8> {
    assert!(len >= varu_len(n) && len <= 5);
    let mut out = Vec::new();
    let mut n = n;
    for i in 0..len {
        let g = (n & 0x7f) as u8;
        n >>= 7;
        out.push(if i + 1 < len { g | 0x80 } else { g });
    }
    out
}

#[derive(Clone, Copy, Debug, PartialEq, Eq, Hash)]
pub enum MarkKind {
    Version,
    ChunkSize,
    HeaderCode,
    Position,
    Count,
    Len,
    Tag,
    CtorIdx,
    StrRef,
    Terminator,
    Fixed,
}

/// one framing element of an encoding: where it is, how long, what it is, and its numeric value
#[derive(Clone, Copy, Debug, PartialEq, Eq, Hash)]
pub struct Mark {
    pub off: usize,
    pub len: usize,
    pub kind: MarkKind,
    pub value: i64,
    /// true if the element is a zig-zag varint, false if unsigned varint / raw byte
    pub zz: bool,
}

#[derive(Clone, Debug, Default)]
pub struct Buf {
    pub b: Vec<u8>,
    pub marks: Vec<Mark>,
}

impl Buf {
    pub fn new() -> Self {
        Self::default()
    }
    pub fn len(&self) -> usize {
        self.b.len()
    }
    pub fn is_empty(&self) -> bool {
        self.b.is_empty()
    }
    pub fn u8(&mut self, v: u8) {
        self.b.push(v);
    }
    pub fn u8m(&mut self, v: u8, kind: MarkKind) {
        self.marks.push(Mark { off: self.b.len(), len: 1, kind, value: v as i64, zz: false });
        self.b.push(v);
    }
    pub fn bytes(&mut self, v: &[u8]) {
        self.b.extend_from_slice(v);
    }
    pub fn fixed(&mut self, v: &[u8]) {
        self.marks.push(Mark { off: self.b.len(), len: v.len(), kind: MarkKind::Fixed, value: 0, zz: false });
        self.b.extend_from_slice(v);
    }
    pub fn varu(&mut self, n: u32, kind: MarkKind) {
        let e = varu(n);
        self.marks.push(Mark { off: self.b.len(), len: e.len(), kind, value: n as i64, zz: false });
        self.b.extend_from_slice(&e);
    }
    pub fn vari(&mut self, n: i32, kind: MarkKind) {
        let e = vari(n);
        self.marks.push(Mark { off: self.b.len(), len: e.len(), kind, value: n as i64, zz: true });
        self.b.extend_from_slice(&e);
    }
    pub fn append(&mut self, other: &Buf) {
        let base = self.b.len();
        for m in &other.marks {
            let mut m = *m;
            m.off += base;
            self.marks.push(m);
        }
        self.b.extend_from_slice(&other.b);
    }
}

/// a bounded cursor over the input: `[pos, end)`
#[derive(Clone, Copy, Debug)]
pub struct Cur {
    pub pos: usize,
    pub end: usize,
}

#[derive(Clone, Debug, PartialEq, Eq, Hash)]
pub enum DecErr {
    Eof,
    BadTag(u8),
    BadUtf8,
    BadChar(u16),
    NegativeLength(i32),
    BadStringId(i32),
    BadCtor(u32),
    TransientCtor(String),
    FieldRemoved(String),
    SerializedAsNone(String),
    MissingNoDefault(String),
    ArrayLen { expected: usize, got: usize },
    Invalid(String),
    /// the model declines to decide (work bound exceeded); never counted as agreement
    Declined,
}

pub fn rd_u8(d: &[u8], c: &mut Cur) -> Result<u8, DecErr> {
    if c.pos >= c.end || c.pos >= d.len() {
        return Err(DecErr::Eof);
    }
    let v = d[c.pos];
    c.pos += 1;
    Ok(v)
}

pub fn rd_bytes<'a>(d: &'a [u8], c: &mut Cur, n: usize) -> Result<&'a [u8], DecErr> {
    let end = std::cmp::min(c.end, d.len());
    if n > end.saturating_sub(c.pos) {
        return Err(DecErr::Eof);
    }
    let r = &d[c.pos..c.pos + n];
    c.pos += n;
    Ok(r)
}

/// leniency 2: over-long encodings accepted, in a fifth byte only bits 0-3 count
pub fn rd_varu(d: &[u8], c: &mut Cur) -> Result<u32, DecErr> {
    let mut r: u32 = 0;
    for i in 0..5 {
        let b = rd_u8(d, c)?;
        if i == 4 {
            r |= ((b & 0x0f) as u32) << 28;
            return Ok(r);
        }
        r |= ((b & 0x7f) as u32) << (7 * i);
        if b & 0x80 == 0 {
            return Ok(r);
        }
    }
    unreachable!()
}

pub fn rd_vari(d: &[u8], c: &mut Cur) -> Result<i32, DecErr> {
    Ok(unzigzag(rd_varu(d, c)?))
}

#[cfg(test)]
mod tests {
    use super::*;
    #[test]
    fn varint_basics() {
        assert_eq!(varu(0), vec![0]);
        assert_eq!(varu(127), vec![0x7f]);
        assert_eq!(varu(128), vec![0x80, 1]);
        assert_eq!(varu(u32::MAX), vec![0xff, 0xff, 0xff, 0xff, 0x0f]);
        assert_eq!(vari(-1), vec![1]);
        assert_eq!(vari(-2), vec![3]);
        assert_eq!(vari(1), vec![2]);
        assert_eq!(vari(i32::MIN), vec![0xff, 0xff, 0xff, 0xff, 0x0f]);
        for n in [0u32, 1, 127, 128, 16383, 16384, 1 << 21, (1 << 28) - 1, 1 << 28, u32::MAX] {
            let e = varu(n);
            assert_eq!(e.len(), varu_len(n));
            let mut c = Cur { pos: 0, end: e.len() };
            assert_eq!(rd_varu(&e, &mut c).unwrap(), n);
            assert_eq!(c.pos, e.len());
        }
        for n in [0i32, 1, -1, 63, -64, 64, -65, i32::MAX, i32::MIN] {
            assert_eq!(unzigzag(zigzag(n)), n);
        }
    }
}
