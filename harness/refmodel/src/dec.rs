//! Strict reference decoder: DESIGN.md sections 4.1-4.6 with exactly the leniencies of 4.5.
use crate::timeval;
use crate::ty::*;
use crate::wire::*;

pub struct Dec<'a> {
    pub d: &'a [u8],
    pub strings: Vec<String>,
    scope: Scope,
    /// work counter: the model declines instead of spinning on huge zero-width counts
    pub work: u64,
    pub work_limit: u64,
    /// forms met while decoding (so that an encoding can be reproduced exactly)
    pub seen_seq_unknown: Vec<bool>,
    pub seen_replain: Vec<bool>,
}

pub fn ref_decode(ty: &Ty, d: &[u8]) -> Result<(Val, usize), DecErr> {
    let mut dec = Dec::new(d);
    let mut c = Cur { pos: 0, end: d.len() };
    let v = dec.dec(ty, &mut c)?;
    Ok((v, c.pos))
}

/// smallest number of bytes any value of the type occupies (0 = zero-width)
pub fn min_size(ty: &Ty) -> usize {
    match ty {
        Ty::Unit => 0,
        Ty::U8 | Ty::I8 | Ty::Bool | Ty::Weekday | Ty::Month => 1,
        Ty::U16 | Ty::I16 | Ty::Char => 2,
        Ty::U32 | Ty::I32 | Ty::F32 => 4,
        Ty::U64 | Ty::I64 | Ty::F64 => 8,
        Ty::U128 | Ty::I128 | Ty::Uuid => 16,
        Ty::Duration | Ty::DtUtc => 12,
        Ty::Array(n, t) => 1 + n * min_size(t),
        Ty::ByteArray(n) => 1 + n,
        Ty::Tuple(ts) => 1 + ts.iter().map(min_size).sum::<usize>(),
        _ => 1,
    }
}

impl<'a> Dec<'a> {
    pub fn new(d: &'a [u8]) -> Self {
        Dec {
            d,
            strings: Vec::new(),
            scope: Vec::new(),
            work: 0,
            work_limit: 1 << 22,
            seen_seq_unknown: Vec::new(),
            seen_replain: Vec::new(),
        }
    }

    fn tick(&mut self) -> Result<(), DecErr> {
        self.work += 1;
        if self.work > self.work_limit {
            Err(DecErr::Declined)
        } else {
            Ok(())
        }
    }

    fn len_nonneg(&self, n: i32) -> Result<usize, DecErr> {
        if n < 0 {
            Err(DecErr::NegativeLength(n))
        } else {
            Ok(n as usize)
        }
    }

    pub fn plain_string(&mut self, c: &mut Cur) -> Result<String, DecErr> {
        let n = rd_vari(self.d, c)?;
        let n = self.len_nonneg(n)?;
        let b = rd_bytes(self.d, c, n)?;
        String::from_utf8(b.to_vec()).map_err(|_| DecErr::BadUtf8)
    }

    pub fn dedup_string(&mut self, c: &mut Cur) -> Result<String, DecErr> {
        let n = rd_vari(self.d, c)?;
        if n < 0 {
            // ids are 1-based; i32::MIN has no positive counterpart and denotes no id
            let id = (n as i64).unsigned_abs() as usize;
            if id >= 1 && id <= self.strings.len() {
                Ok(self.strings[id - 1].clone())
            } else {
                Err(DecErr::BadStringId(n))
            }
        } else {
            let b = rd_bytes(self.d, c, n as usize)?;
            let s = String::from_utf8(b.to_vec()).map_err(|_| DecErr::BadUtf8)?;
            if !self.strings.contains(&s) {
                self.strings.push(s.clone());
            } else {
                // leniency 9: known string in plain form again, no new id
                self.seen_replain.push(true);
            }
            Ok(s)
        }
    }

    fn seq(&mut self, t: &Ty, c: &mut Cur) -> Result<Vec<Val>, DecErr> {
        let n = rd_vari(self.d, c)?;
        let mut out = Vec::new();
        if n == -1 {
            self.seen_seq_unknown.push(true);
            loop {
                self.tick()?;
                match rd_u8(self.d, c)? {
                    0 => break,
                    1 => out.push(self.dec(t, c)?),
                    o => return Err(DecErr::BadTag(o)),
                }
            }
        } else {
            self.seen_seq_unknown.push(false);
            let n = self.len_nonneg(n)?;
            let avail = std::cmp::min(c.end, self.d.len()).saturating_sub(c.pos);
            let ms = min_size(t);
            if ms > 0 && n.saturating_mul(ms) > avail {
                // cannot possibly fit: some element read must hit the end of its region
                // (elements are decoded first so that an earlier, different error wins)
                for _ in 0..n {
                    self.tick()?;
                    out.push(self.dec(t, c)?);
                }
                return Err(DecErr::Eof);
            }
            for _ in 0..n {
                self.tick()?;
                out.push(self.dec(t, c)?);
            }
        }
        Ok(out)
    }

    pub fn dec(&mut self, ty: &Ty, c: &mut Cur) -> Result<Val, DecErr> {
        let d = self.d;
        macro_rules! fixed {
            ($n:expr) => {{
                let b = rd_bytes(d, c, $n)?;
                let mut a = [0u8; $n];
                a.copy_from_slice(b);
                a
            }};
        }
        Ok(match ty {
            Ty::U8 => Val::U(rd_u8(d, c)? as u128),
            Ty::I8 => Val::I(rd_u8(d, c)? as i8 as i128),
            Ty::U16 => Val::U(u16::from_be_bytes(fixed!(2)) as u128),
            Ty::I16 => Val::I(i16::from_be_bytes(fixed!(2)) as i128),
            Ty::U32 => Val::U(u32::from_be_bytes(fixed!(4)) as u128),
            Ty::I32 => Val::I(i32::from_be_bytes(fixed!(4)) as i128),
            Ty::U64 => Val::U(u64::from_be_bytes(fixed!(8)) as u128),
            Ty::I64 => Val::I(i64::from_be_bytes(fixed!(8)) as i128),
            Ty::U128 => Val::U(u128::from_be_bytes(fixed!(16))),
            Ty::I128 => Val::I(i128::from_be_bytes(fixed!(16))),
            Ty::F32 => Val::F32(u32::from_be_bytes(fixed!(4))),
            Ty::F64 => Val::F64(u64::from_be_bytes(fixed!(8))),
            Ty::Bool => Val::Bool(rd_u8(d, c)? != 0),
            Ty::Unit => Val::Unit,
            Ty::Char => {
                let u = u16::from_be_bytes(fixed!(2));
                if (0xd800..=0xdfff).contains(&u) {
                    return Err(DecErr::BadChar(u));
                }
                Val::Char(u as u32)
            }
            Ty::Str => Val::Str(self.plain_string(c)?),
            Ty::DedupStr => Val::Str(self.dedup_string(c)?),
            Ty::VarU32 => Val::U(rd_varu(d, c)? as u128),
            Ty::VarI32 => Val::I(rd_vari(d, c)? as i128),
            Ty::Duration => {
                let secs = u64::from_be_bytes(fixed!(8));
                let nanos = u32::from_be_bytes(fixed!(4));
                // leniency 5: nanos >= 10^9 carries; an overflowing carry does not decode
                let carry = (nanos / 1_000_000_000) as u64;
                match secs.checked_add(carry) {
                    Some(s) => Val::Tuple(vec![Val::U(s as u128), Val::U((nanos % 1_000_000_000) as u128)]),
                    None => return Err(DecErr::Invalid("duration overflow".into())),
                }
            }
            Ty::Uuid => Val::Bytes(fixed!(16).to_vec()),
            Ty::ByteVec => {
                let n = rd_varu(d, c)? as usize;
                Val::Bytes(rd_bytes(d, c, n)?.to_vec())
            }
            Ty::BigInt => {
                let n = rd_varu(d, c)? as usize;
                Val::Bytes(timeval::bigint_canon(rd_bytes(d, c, n)?))
            }
            Ty::ByteArray(k) => {
                let n = rd_varu(d, c)? as usize;
                let b = rd_bytes(d, c, n)?;
                if n != *k {
                    return Err(DecErr::ArrayLen { expected: *k, got: n });
                }
                Val::Bytes(b.to_vec())
            }
            Ty::BigDecimal => {
                let s = self.plain_string(c)?;
                Val::Str(timeval::bigdecimal_canon(&s)?)
            }
            Ty::Weekday => {
                let b = rd_u8(d, c)? as i8;
                if !(1..=7).contains(&b) {
                    return Err(DecErr::Invalid(format!("weekday {b}")));
                }
                Val::U(b as u128)
            }
            Ty::Month => {
                let b = rd_u8(d, c)? as i8;
                if !(1..=12).contains(&b) {
                    return Err(DecErr::Invalid(format!("month {b}")));
                }
                Val::U(b as u128)
            }
            Ty::FixedOffset => {
                let t = rd_u8(d, c)?;
                if t != 0 {
                    return Err(DecErr::BadTag(t));
                }
                let s = rd_vari(d, c)?;
                timeval::check_offset(s)?;
                Val::I(s as i128)
            }
            Ty::Tz => {
                let t = rd_u8(d, c)?;
                if t != 1 {
                    return Err(DecErr::BadTag(t));
                }
                let s = self.plain_string(c)?;
                Val::Str(timeval::check_tz(&s)?)
            }
            Ty::DtUtc => {
                let secs = i64::from_be_bytes(fixed!(8));
                let nanos = u32::from_be_bytes(fixed!(4));
                timeval::dec_utc(secs, nanos)?
            }
            Ty::NaiveDate => timeval::dec_date(d, c)?,
            Ty::NaiveTime => timeval::dec_time(d, c)?,
            Ty::NaiveDateTime => timeval::dec_datetime(d, c)?,
            Ty::DtLocal => {
                let n = timeval::dec_datetime(d, c)?;
                timeval::check_local(&n)?
            }
            Ty::DtFixed => {
                let n = timeval::dec_datetime(d, c)?;
                let off = self.dec(&Ty::FixedOffset, c)?;
                timeval::check_fixed(&n, off.as_i() as i32)?
            }
            Ty::DtTz => {
                let n = timeval::dec_datetime(d, c)?;
                let tz = self.dec(&Ty::Tz, c)?;
                Val::Tuple(vec![n, tz])
            }
            Ty::Opt(t) => match rd_u8(d, c)? {
                0 => Val::Opt(None),
                1 => Val::Opt(Some(Box::new(self.dec(t, c)?))),
                o => return Err(DecErr::BadTag(o)),
            },
            Ty::Res(a, b) => match rd_u8(d, c)? {
                0 => Val::Res(Err(Box::new(self.dec(b, c)?))),
                1 => Val::Res(Ok(Box::new(self.dec(a, c)?))),
                o => return Err(DecErr::BadTag(o)),
            },
            Ty::Seq(_, t) => Val::Seq(self.seq(t, c)?),
            Ty::Array(n, t) => {
                let xs = self.seq(t, c)?;
                if xs.len() != *n {
                    return Err(DecErr::ArrayLen { expected: *n, got: xs.len() });
                }
                Val::Seq(xs)
            }
            Ty::Map(_, k, t) => {
                let pair = Ty::Tuple(vec![(**k).clone(), (**t).clone()]);
                let xs = self.seq(&pair, c)?;
                Val::Map(
                    xs.into_iter()
                        .map(|p| match p {
                            Val::Tuple(mut ab) => {
                                let b = ab.pop().unwrap();
                                let a = ab.pop().unwrap();
                                (a, b)
                            }
                            _ => unreachable!(),
                        })
                        .collect(),
                )
            }
            Ty::Tuple(ts) => {
                // a tuple is a record without evolution steps whose fields are all required
                let rd = RecordDescr {
                    name: String::new(),
                    steps: vec![],
                    fields: ts
                        .iter()
                        .enumerate()
                        .map(|(i, t)| FieldDescr {
                            name: format!("_{i}"),
                            ty: t.clone(),
                            transient: None,
                            is_option: false,
                            default: None,
                        })
                        .collect(),
                };
                Val::Tuple(self.record(&rd, c)?)
            }
            Ty::Named(n) => {
                let t = resolve(&self.scope, n).clone();
                self.dec(&t, c)?
            }
            Ty::Record(rd) => {
                self.scope.push((rd.name.clone(), ty.clone()));
                let r = self.record(rd, c);
                self.scope.pop();
                Val::Rec(r?)
            }
            Ty::Enum(ed) => {
                self.scope.push((ed.name.clone(), ty.clone()));
                let r = self.enumeration(ed, c);
                self.scope.pop();
                r?
            }
        })
    }

    /// header of a chunked record: returns the chunk regions (one per stored step, empty for
    /// non-size entries), the made-optional positions and the removed names
    fn header(
        &mut self,
        stored: usize,
        c: &mut Cur,
    ) -> Result<(Vec<Cur>, Vec<(usize, usize)>, Vec<String>), DecErr> {
        enum E {
            Size(usize),
            Empty,
        }
        let mut entries = Vec::new();
        let mut made_optional = Vec::new();
        let mut removed = Vec::new();
        for _ in 0..=stored {
            let code = rd_vari(self.d, c)?;
            match code {
                0 => entries.push(E::Empty),
                -1 => {
                    let b = rd_u8(self.d, c)? as i8;
                    if b < 0 {
                        made_optional.push((0usize, (b as i32).unsigned_abs() as usize));
                    } else {
                        made_optional.push((b as usize, 0usize));
                    }
                    entries.push(E::Empty);
                }
                -2 => {
                    removed.push(self.dedup_string(c)?);
                    entries.push(E::Empty);
                }
                n if n > 0 => entries.push(E::Size(n as usize)),
                n => return Err(DecErr::NegativeLength(n)),
            }
        }
        let mut regions = Vec::new();
        for e in entries {
            match e {
                E::Size(n) => {
                    let avail = std::cmp::min(c.end, self.d.len()).saturating_sub(c.pos);
                    if n > avail {
                        return Err(DecErr::Eof);
                    }
                    regions.push(Cur { pos: c.pos, end: c.pos + n });
                    c.pos += n;
                }
                E::Empty => regions.push(Cur { pos: c.pos, end: c.pos }),
            }
        }
        Ok((regions, made_optional, removed))
    }

    /// DESIGN 4.3, reader side. Returns all declared fields (transient ones as defaults).
    pub fn record(&mut self, rd: &RecordDescr, c: &mut Cur) -> Result<Vec<Val>, DecErr> {
        let stored = rd_u8(self.d, c)? as usize;
        self.record_body(rd, stored, c, None)
    }

    fn record_body(
        &mut self,
        rd: &RecordDescr,
        stored: usize,
        c: &mut Cur,
        pre: Option<(Vec<Cur>, Vec<(usize, usize)>, Vec<String>)>,
    ) -> Result<Vec<Val>, DecErr> {
        let (mut regions, made_optional, removed) = match pre {
            Some(p) => p,
            None => {
                if stored == 0 {
                    (Vec::new(), Vec::new(), Vec::new())
                } else {
                    self.header(stored, c)?
                }
            }
        };
        let own_v = rd.version();
        let mut counters = vec![0usize; own_v + 1];
        let mut out = Vec::with_capacity(rd.fields.len());
        for f in &rd.fields {
            if let Some(dflt) = &f.transient {
                out.push(dflt.clone());
                continue;
            }
            if removed.iter().any(|n| n == &f.name) {
                if f.is_option {
                    out.push(Val::Opt(None));
                    continue;
                } else {
                    return Err(DecErr::FieldRemoved(f.name.clone()));
                }
            }
            let chunk = rd.generation(&f.name);
            let index = counters[chunk];
            counters[chunk] += 1;
            if stored < chunk {
                match &f.default {
                    Some(dv) => {
                        out.push(dv.clone());
                        continue;
                    }
                    None => return Err(DecErr::MissingNoDefault(f.name.clone())),
                }
            }
            // the bytes of this field: its chunk, or the plain stream for version 0
            let mut local;
            let cur: &mut Cur = if stored == 0 {
                &mut *c
            } else {
                local = regions[chunk];
                &mut local
            };
            let v = if f.is_option {
                let inner = match &f.ty {
                    Ty::Opt(t) => (**t).clone(),
                    other => panic!("model: is_option field {} has type {other:?}", f.name),
                };
                if stored < rd.optional_since(&f.name) {
                    Val::Opt(Some(Box::new(self.dec(&inner, cur)?)))
                } else {
                    self.dec(&f.ty, cur)?
                }
            } else if made_optional.contains(&(chunk, index)) {
                let flag = rd_u8(self.d, cur)?;
                if flag != 0 {
                    self.dec(&f.ty, cur)?
                } else {
                    return Err(DecErr::SerializedAsNone(f.name.clone()));
                }
            } else {
                self.dec(&f.ty, cur)?
            };
            if stored != 0 {
                regions[chunk] = *cur;
            }
            out.push(v);
        }
        Ok(out)
    }

    fn enumeration(&mut self, ed: &EnumDescr, c: &mut Cur) -> Result<Val, DecErr> {
        let stored = rd_u8(self.d, c)? as usize;
        // the enum wrapper is a record without steps whose chunk 0 holds index and variant
        let mut local;
        let (cur, chunked): (&mut Cur, bool) = if stored == 0 {
            (&mut *c, false)
        } else {
            let (regions, _, _) = self.header(stored, c)?;
            local = regions[0];
            (&mut local, true)
        };
        let _ = chunked;
        if ed.variants.is_empty() {
            return Err(DecErr::BadCtor(0));
        }
        let idx = rd_varu(self.d, cur)?;
        let order = ed.order();
        if (idx as usize) >= order.len() {
            return Err(DecErr::BadCtor(idx));
        }
        let decl = order[idx as usize];
        let var = &ed.variants[decl];
        if var.transient {
            return Err(DecErr::TransientCtor(var.name.clone()));
        }
        let fields = self.record(&var.record, cur)?;
        Ok(Val::Enum(decl, fields))
    }
}
