//! Fault operators on valid encodings (DESIGN section 5 "Byte strings and tamperings").
use crate::wire::{vari, varu, Mark, MarkKind};

/// bytes that mean something to the format
pub const ALPHABET: [u8; 12] = [0x00, 0x01, 0x02, 0x03, 0x04, 0x05, 0x7f, 0x80, 0x81, 0xfe, 0xff, 0x10];

/// all byte strings of length exactly `len` over `alphabet` whose first bytes are `prefix`
pub fn strings_with_prefix(alphabet: &[u8], prefix: &[u8], len: usize, f: &mut dyn FnMut(&[u8])) {
    assert!(prefix.len() <= len);
    let mut cur: Vec<u8> = prefix.to_vec();
    cur.resize(len, alphabet[0]);
    let free = len - prefix.len();
    let mut idx = vec![0usize; free];
    loop {
        f(&cur);
        // increment odometer
        let mut i = free;
        loop {
            if i == 0 {
                return;
            }
            i -= 1;
            idx[i] += 1;
            if idx[i] < alphabet.len() {
                cur[prefix.len() + i] = alphabet[idx[i]];
                break;
            }
            idx[i] = 0;
            cur[prefix.len() + i] = alphabet[0];
        }
    }
}

/// 1-point tamperings of `e`: every position x (replace by each alphabet byte | delete |
/// duplicate | insert each alphabet byte), every truncation
pub fn one_point(e: &[u8], alphabet: &[u8], f: &mut dyn FnMut(&[u8])) {
    let n = e.len();
    let mut buf: Vec<u8> = Vec::with_capacity(n + 1);
    for i in 0..n {
        for &a in alphabet {
            if a != e[i] {
                buf.clear();
                buf.extend_from_slice(e);
                buf[i] = a;
                f(&buf);
            }
        }
        buf.clear();
        buf.extend_from_slice(&e[..i]);
        buf.extend_from_slice(&e[i + 1..]);
        f(&buf);
        buf.clear();
        buf.extend_from_slice(&e[..=i]);
        buf.extend_from_slice(&e[i..]);
        f(&buf);
        f(&e[..i]);
    }
    for i in 0..=n {
        for &a in alphabet {
            buf.clear();
            buf.extend_from_slice(&e[..i]);
            buf.push(a);
            buf.extend_from_slice(&e[i..]);
            f(&buf);
        }
    }
}

/// every position replaced by every one of the 255 other byte values
pub fn one_point_all_values(e: &[u8], f: &mut dyn FnMut(&[u8])) {
    let mut buf = e.to_vec();
    for i in 0..e.len() {
        for v in 0..=255u8 {
            if v != e[i] {
                buf[i] = v;
                f(&buf);
            }
        }
        buf[i] = e[i];
    }
}

/// 2-point replacements
pub fn two_point(e: &[u8], alphabet: &[u8], f: &mut dyn FnMut(&[u8])) {
    let n = e.len();
    let mut buf = e.to_vec();
    for i in 0..n {
        for &a in alphabet {
            if a == e[i] {
                continue;
            }
            for j in i + 1..n {
                for &b in alphabet {
                    if b == e[j] {
                        continue;
                    }
                    buf[i] = a;
                    buf[j] = b;
                    f(&buf);
                }
                buf[j] = e[j];
            }
        }
        buf[i] = e[i];
    }
}

/// framing-aware rewrites: each framing element (located by the reference encoder's layout map)
/// rewritten to boundary values in its own encoding
pub fn framing_rewrites(e: &[u8], marks: &[Mark], f: &mut dyn FnMut(&[u8], &Mark, i64)) {
    let mut buf: Vec<u8> = Vec::with_capacity(e.len() + 8);
    for m in marks {
        if m.kind == MarkKind::Fixed {
            continue;
        }
        let x = m.value;
        let raw_byte = m.len == 1 && !m.zz && matches!(m.kind, MarkKind::Version | MarkKind::Tag | MarkKind::Position | MarkKind::Terminator);
        let mut cands: Vec<i64> = vec![0, 1, 2, x - 1, x + 1, 2 * x, x + 2, 127, 128, 255, 256];
        if m.zz {
            cands.extend([-1, -2, -3, -4, i32::MIN as i64, i32::MAX as i64, -x]);
        } else if !raw_byte {
            cands.extend([u32::MAX as i64, i32::MAX as i64, (i32::MAX as i64) + 1, 1 << 14, 1 << 21]);
        }
        cands.sort();
        cands.dedup();
        for c in cands {
            if c == x {
                continue;
            }
            let enc: Vec<u8> = if raw_byte {
                if !(0..=255).contains(&c) {
                    continue;
                }
                vec![c as u8]
            } else if m.zz {
                if c < i32::MIN as i64 || c > i32::MAX as i64 {
                    continue;
                }
                vari(c as i32)
            } else {
                if c < 0 || c > u32::MAX as i64 {
                    continue;
                }
                varu(c as u32)
            };
            buf.clear();
            buf.extend_from_slice(&e[..m.off]);
            buf.extend_from_slice(&enc);
            buf.extend_from_slice(&e[m.off + m.len..]);
            f(&buf, m, c);
        }
    }
}

/// splices of two encodings of the same type: every prefix of `a` followed by every suffix of `b`
pub fn splices(a: &[u8], b: &[u8], f: &mut dyn FnMut(&[u8])) {
    let mut buf = Vec::with_capacity(a.len() + b.len());
    for i in 0..=a.len() {
        for j in 0..=b.len() {
            if i == a.len() && j == b.len() {
                continue;
            }
            buf.clear();
            buf.extend_from_slice(&a[..i]);
            buf.extend_from_slice(&b[j..]);
            f(&buf);
        }
    }
}
