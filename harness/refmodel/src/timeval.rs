//! Calendar and big-number leaves. The *layout* is the model's; calendar validity and decimal
//! rendering are chrono's / bigdecimal's public API (trusted base, DESIGN 4.5 item 6).
use crate::ty::Val;
use crate::wire::*;
use chrono::{DateTime, Datelike, FixedOffset, NaiveDate, NaiveDateTime, NaiveTime, TimeZone, Timelike, Utc};
use chrono_tz::Tz;
use std::str::FromStr;

pub fn date_val(d: &NaiveDate) -> Val {
    Val::Tuple(vec![Val::I(d.year() as i128), Val::U(d.month() as u128), Val::U(d.day() as u128)])
}

pub fn time_val(t: &NaiveTime) -> Val {
    Val::Tuple(vec![
        Val::U(t.hour() as u128),
        Val::U(t.minute() as u128),
        Val::U(t.second() as u128),
        Val::U(t.nanosecond() as u128),
    ])
}

pub fn datetime_val(dt: &NaiveDateTime) -> Val {
    Val::Tuple(vec![date_val(&dt.date()), time_val(&dt.time())])
}

pub fn val_date(v: &Val) -> Option<NaiveDate> {
    let xs = v.items();
    NaiveDate::from_ymd_opt(xs[0].as_i() as i32, xs[1].as_u() as u32, xs[2].as_u() as u32)
}

pub fn val_time(v: &Val) -> Option<NaiveTime> {
    let xs = v.items();
    NaiveTime::from_hms_nano_opt(xs[0].as_u() as u32, xs[1].as_u() as u32, xs[2].as_u() as u32, xs[3].as_u() as u32)
}

pub fn val_datetime(v: &Val) -> Option<NaiveDateTime> {
    let xs = v.items();
    Some(NaiveDateTime::new(val_date(&xs[0])?, val_time(&xs[1])?))
}

pub fn enc_date(v: &Val, out: &mut Buf) {
    let xs = v.items();
    out.varu(xs[0].as_i() as i32 as u32, MarkKind::Fixed);
    out.fixed(&[xs[1].as_u() as u8]);
    out.fixed(&[xs[2].as_u() as u8]);
}

pub fn enc_time(v: &Val, out: &mut Buf) {
    let xs = v.items();
    out.fixed(&[xs[0].as_u() as u8]);
    out.fixed(&[xs[1].as_u() as u8]);
    out.fixed(&[xs[2].as_u() as u8]);
    out.varu(xs[3].as_u() as u32, MarkKind::Fixed);
}

pub fn dec_date(d: &[u8], c: &mut Cur) -> Result<Val, DecErr> {
    let year = rd_varu(d, c)? as i32;
    let month = rd_u8(d, c)?;
    let day = rd_u8(d, c)?;
    match NaiveDate::from_ymd_opt(year, month as u32, day as u32) {
        Some(x) => Ok(date_val(&x)),
        None => Err(DecErr::Invalid(format!("date {year} {month} {day}"))),
    }
}

pub fn dec_time(d: &[u8], c: &mut Cur) -> Result<Val, DecErr> {
    let h = rd_u8(d, c)?;
    let m = rd_u8(d, c)?;
    let s = rd_u8(d, c)?;
    let n = rd_varu(d, c)?;
    match NaiveTime::from_hms_nano_opt(h as u32, m as u32, s as u32, n) {
        Some(x) => Ok(time_val(&x)),
        None => Err(DecErr::Invalid(format!("time {h} {m} {s} {n}"))),
    }
}

pub fn dec_datetime(d: &[u8], c: &mut Cur) -> Result<Val, DecErr> {
    let a = dec_date(d, c)?;
    let b = dec_time(d, c)?;
    Ok(Val::Tuple(vec![a, b]))
}

pub fn dec_utc(secs: i64, nanos: u32) -> Result<Val, DecErr> {
    match DateTime::<Utc>::from_timestamp(secs, nanos) {
        Some(x) => Ok(Val::Tuple(vec![Val::I(x.timestamp() as i128), Val::U(x.timestamp_subsec_nanos() as u128)])),
        None => Err(DecErr::Invalid(format!("timestamp {secs} {nanos}"))),
    }
}

pub fn check_offset(secs: i32) -> Result<(), DecErr> {
    FixedOffset::east_opt(secs).map(|_| ()).ok_or_else(|| DecErr::Invalid(format!("offset {secs}")))
}

pub fn check_tz(name: &str) -> Result<String, DecErr> {
    match Tz::from_str(name) {
        Ok(tz) => Ok(tz.name().to_string()),
        Err(_) => Err(DecErr::Invalid(format!("tz {name}"))),
    }
}

/// `DateTime<FixedOffset>`: naive *local* time + offset must denote a representable instant
pub fn check_fixed(naive: &Val, offset: i32) -> Result<Val, DecErr> {
    let n = val_datetime(naive).ok_or_else(|| DecErr::Invalid("datetime".into()))?;
    let off = FixedOffset::east_opt(offset).ok_or_else(|| DecErr::Invalid("offset".into()))?;
    match off.from_local_datetime(&n).single() {
        Some(dt) => Ok(Val::Tuple(vec![datetime_val(&dt.naive_local()), Val::I(dt.offset().local_minus_utc() as i128)])),
        None => Err(DecErr::Invalid(format!("fixed datetime {n}"))),
    }
}

/// `DateTime<Local>` with TZ=UTC (the checks pin it)
pub fn check_local(naive: &Val) -> Result<Val, DecErr> {
    let n = val_datetime(naive).ok_or_else(|| DecErr::Invalid("datetime".into()))?;
    match chrono::Local.from_local_datetime(&n).single() {
        Some(dt) => Ok(Val::Tuple(vec![date_val(&dt.date_naive()), time_val(&dt.time())])),
        None => Err(DecErr::Invalid(format!("local datetime {n}"))),
    }
}

pub fn bigdecimal_canon(s: &str) -> Result<String, DecErr> {
    match bigdecimal::BigDecimal::from_str(s) {
        Ok(b) => Ok(b.to_string()),
        Err(e) => Err(DecErr::Invalid(format!("bigdecimal {e}"))),
    }
}

/// minimal two's-complement big-endian form; the empty array is 0
pub fn bigint_canon(b: &[u8]) -> Vec<u8> {
    if b.is_empty() {
        return vec![0];
    }
    let mut i = 0;
    while i + 1 < b.len() {
        if (b[i] == 0x00 && b[i + 1] & 0x80 == 0) || (b[i] == 0xff && b[i + 1] & 0x80 != 0) {
            i += 1;
        } else {
            break;
        }
    }
    b[i..].to_vec()
}
