pub use shuttle::lazy_static;
pub use shuttle::lazy_static::*;
