//! C18 (a): all interleavings of small thread bodies doing first-use and steady-state encode /
//! decode, explored with shuttle's exhaustive DFS scheduler. Scheduling points: every access to a
//! derived type's metadata static (shuttle lazy_static through the `lazy_static` shim crate), the
//! `desert_verif` hook points of desert_core (filtered per harness), spawn and join.
use desert::{
    BinaryCodec, BinaryOutput, BinarySerializer, DeduplicatedString, Result, SerializationContext,
};
use refmodel::{FieldDescr, RecordDescr, Step, Ty, Val};
use serde_json::json;
use shuttle::scheduler::DfsScheduler;
use shuttle::{Config, FailurePersistence, MaxSteps, Runner};
use std::cell::RefCell;
use std::panic::{catch_unwind, AssertUnwindSafe};
use std::rc::{Rc, Weak};
use std::sync::atomic::{AtomicU64, AtomicUsize, Ordering};
use std::sync::{Arc, Mutex};

// ---------------------------------------------------------------------------------------------
// subject types

#[derive(BinaryCodec)]
#[evolution(FieldAdded("n", None), FieldRemoved("zz"))]
struct Inner {
    a: u8,
    n: Option<String>,
}

#[derive(BinaryCodec)]
#[evolution(FieldAdded("tag", DeduplicatedString("t".to_string())), FieldRemoved("zz"))]
struct Outer {
    inner: Inner,
    s1: DeduplicatedString,
    s2: DeduplicatedString,
    tag: DeduplicatedString,
}

#[derive(BinaryCodec)]
enum Choice {
    A,
    B(u8),
    #[evolution(FieldAdded("y", 7u8))]
    C {
        x: String,
        y: u8,
    },
}

#[derive(BinaryCodec)]
enum Att {
    Plain(u8),
    #[transient]
    Temp,
}

#[derive(BinaryCodec)]
#[evolution(FieldAdded("att", Att::Plain(0)))]
struct Envelope {
    id: u32,
    att: Att,
}

struct Node {
    label: u8,
    next: RefCell<Option<Rc<Node>>>,
    me: Weak<Node>,
}

struct Ring(Rc<Node>);

fn write_node<O: BinaryOutput>(n: &Node, ctx: &mut SerializationContext<O>) -> Result<()> {
    ctx.write_u8(n.label);
    match n.next.borrow().as_ref() {
        Some(t) => {
            ctx.write_u8(1);
            let target: &Node = t;
            if ctx.store_ref_or_object(target)? {
                write_node(target, ctx)?;
            }
        }
        None => ctx.write_u8(0),
    }
    Ok(())
}

impl BinarySerializer for Ring {
    fn serialize<O: BinaryOutput>(&self, ctx: &mut SerializationContext<O>) -> Result<()> {
        let root: &Node = &self.0;
        if ctx.store_ref_or_object(root)? {
            write_node(root, ctx)?;
        }
        Ok(())
    }
}

fn ring3() -> (Ring, Vec<Rc<Node>>) {
    let mk = |l| Rc::new_cyclic(|me| Node { label: l, next: RefCell::new(None), me: me.clone() });
    let a = mk(1);
    let b = mk(2);
    let c = mk(3);
    *a.next.borrow_mut() = Some(b.clone());
    *b.next.borrow_mut() = Some(c.clone());
    *c.next.borrow_mut() = Some(a.clone());
    let _ = &a.me;
    (Ring(a.clone()), vec![a, b, c])
}

// ---------------------------------------------------------------------------------------------
// the calls; each returns an observation (bytes, or a rendering of the decoded value)

const N_CALLS: usize = 8;
const CALL_NAMES: [&str; N_CALLS] =
    ["enc Outer (nested evolved, dedup)", "dec Outer", "enc Vec<Dedup>", "enc ring of 3 refs", "enc Choice::C", "dec (u8,String)", "dec Vec<Dedup> with back-refs", "enc Envelope that FAILS in chunk 1 after chunk 0 was written"];

fn outer_value() -> Outer {
    Outer {
        inner: Inner { a: 5, n: Some("zz".to_string()) },
        s1: DeduplicatedString("zz".to_string()),
        s2: DeduplicatedString("x".to_string()),
        tag: DeduplicatedString("x".to_string()),
    }
}

fn render<T>(r: Result<T>, f: impl FnOnce(T) -> Vec<u8>) -> Vec<u8> {
    match r {
        Ok(x) => f(x),
        Err(e) => format!("ERR {e:?}").into_bytes(),
    }
}

fn call(i: usize, fixtures: &Fixtures) -> Vec<u8> {
    match i {
        0 => render(desert::serialize_to_byte_vec(&outer_value()), |b| b),
        1 => render(desert::deserialize::<Outer>(&fixtures.outer_bytes), |o| {
            format!("{} {:?} {} {} {}", o.inner.a, o.inner.n, o.s1.0, o.s2.0, o.tag.0).into_bytes()
        }),
        2 => render(
            desert::serialize_to_byte_vec(&vec![
                DeduplicatedString("x".to_string()),
                DeduplicatedString("y".to_string()),
                DeduplicatedString("x".to_string()),
            ]),
            |b| b,
        ),
        3 => {
            let (ring, nodes) = ring3();
            let r = render(desert::serialize_to_byte_vec(&ring), |b| b);
            for n in &nodes {
                *n.next.borrow_mut() = None;
            }
            r
        }
        4 => render(desert::serialize_to_byte_vec(&Choice::C { x: "q".to_string(), y: 9 }), |b| b),
        5 => render(desert::deserialize::<(u8, String)>(&[0, 7, 2, b'h']), |t| format!("{} {}", t.0, t.1).into_bytes()),
        6 => render(desert::deserialize::<Vec<DeduplicatedString>>(&[6, 2, b'x', 2, b'y', 1]), |v| {
            v.iter().map(|s| s.0.clone()).collect::<Vec<_>>().join(",").into_bytes()
        }),
        7 => render(desert::serialize_to_byte_vec(&Envelope { id: 0xdead_beef, att: Att::Temp }), |b| b),
        _ => unreachable!(),
    }
}

struct Fixtures {
    outer_bytes: Vec<u8>,
    /// what each call must return (reference model / spelled-out values)
    expected: Vec<Vec<u8>>,
}

fn fld(name: &str, ty: Ty) -> FieldDescr {
    FieldDescr { name: name.into(), is_option: matches!(ty, Ty::Opt(_)), ty, transient: None, default: None }
}

/// expected observations, from the reference model - independent of the library
fn fixtures() -> Fixtures {
    let mut n = fld("n", Ty::Opt(Box::new(Ty::Str)));
    n.default = Some(Val::none());
    let inner = Ty::Record(Arc::new(RecordDescr {
        name: "Inner".into(),
        steps: vec![Step::Added("n".into()), Step::Removed("zz".into())],
        fields: vec![fld("a", Ty::U8), n],
    }));
    let mut tag = fld("tag", Ty::DedupStr);
    tag.default = Some(Val::s("t"));
    let outer = Ty::Record(Arc::new(RecordDescr {
        name: "Outer".into(),
        steps: vec![Step::Added("tag".into()), Step::Removed("zz".into())],
        fields: vec![fld("inner", inner), fld("s1", Ty::DedupStr), fld("s2", Ty::DedupStr), tag],
    }));
    let ov = Val::Rec(vec![Val::Rec(vec![Val::U(5), Val::some(Val::s("zz"))]), Val::s("zz"), Val::s("x"), Val::s("x")]);
    let outer_bytes = refmodel::ref_encode(&outer, &ov).expect("model").b;
    let dedup_vec = refmodel::ref_encode(
        &Ty::Seq(refmodel::SeqKind::Vec, Box::new(Ty::DedupStr)),
        &Val::Seq(vec![Val::s("x"), Val::s("y"), Val::s("x")]),
    )
    .unwrap()
    .b;
    // ring: 0(new) label 1 has-next 0(new) 2 1 0(new) 3 1 ref#1
    let ring = vec![0, 1, 1, 0, 2, 1, 0, 3, 1, 1];
    let mut y = fld("y", Ty::U8);
    y.default = Some(Val::U(7));
    let choice = Ty::Enum(Arc::new(refmodel::EnumDescr {
        name: "Choice".into(),
        sorted: false,
        variants: vec![
            refmodel::VariantDescr { name: "A".into(), transient: false, shape: 0, record: RecordDescr { name: "A".into(), steps: vec![], fields: vec![] } },
            refmodel::VariantDescr { name: "B".into(), transient: false, shape: 1, record: RecordDescr { name: "B".into(), steps: vec![], fields: vec![fld("field0", Ty::U8)] } },
            refmodel::VariantDescr {
                name: "C".into(),
                transient: false,
                shape: 2,
                record: RecordDescr { name: "C".into(), steps: vec![Step::Added("y".into())], fields: vec![fld("x", Ty::Str), y] },
            },
        ],
    }));
    let choice_bytes = refmodel::ref_encode(&choice, &Val::Enum(2, vec![Val::s("q"), Val::U(9)])).unwrap().b;
    let expected = vec![
        outer_bytes.clone(),
        b"5 Some(\"zz\") zz x x".to_vec(),
        dedup_vec,
        ring,
        choice_bytes,
        b"7 h".to_vec(),
        b"x,y,x".to_vec(),
        format!("ERR {:?}", desert::Error::SerializingTransientConstructor { constructor_name: "Temp".to_string(), type_name: "Att".to_string() }).into_bytes(),
    ];
    let _ = Att::Plain(1);
    Fixtures { outer_bytes, expected }
}

// ---------------------------------------------------------------------------------------------
// hook filter: which desert_verif points are scheduling points in the current harness

static FILTER: AtomicUsize = AtomicUsize::new(0);
const FILTERS: [(&str, &[&str]); 3] = [
    ("tables", &["State::store_string", "State::store_ref"]),
    ("records", &["AdtSerializer::finish", "AdtDeserializer::new", "SerializationContext::new", "DeserializationContext::new"]),
    ("fields", &["AdtSerializer::write_field", "AdtDeserializer::read_field"]),
];

fn hook(name: &'static str) {
    let f = FILTER.load(Ordering::Relaxed);
    // a hook point this explorer does not know (added to the library later) is always a
    // scheduling point: it marks state somebody thought worth marking
    let known = FILTERS.iter().any(|(_, names)| names.contains(&name));
    if FILTERS[f].1.contains(&name) || !known {
        shuttle::thread::yield_now();
    }
}

struct Harness {
    calls: Vec<usize>,
    filter: usize,
}

struct Outcome {
    schedules: u64,
    mismatches: Vec<String>,
    distinct_traces: usize,
    capped: bool,
    panicked: Option<String>,
}

fn run_harness(h: &Harness, fx: Arc<Fixtures>, cap: usize, persist: &str) -> Outcome {
    FILTER.store(h.filter, Ordering::Relaxed);
    let schedules = Arc::new(AtomicU64::new(0));
    let mismatches: Arc<Mutex<Vec<String>>> = Arc::new(Mutex::new(Vec::new()));
    let mut config = Config::new();
    config.silence_warnings = true;
    config.max_steps = MaxSteps::FailAfter(200_000);
    config.failure_persistence = FailurePersistence::File(Some(std::path::PathBuf::from(persist)));
    let scheduler = DfsScheduler::new(Some(cap), false);
    let runner = Runner::new(scheduler, config);
    let calls = h.calls.clone();
    let (s2, m2) = (schedules.clone(), mismatches.clone());
    let r = catch_unwind(AssertUnwindSafe(move || {
        runner.run(move || {
            s2.fetch_add(1, Ordering::Relaxed);
            let handles: Vec<_> = calls
                .iter()
                .map(|&c| {
                    let fx = fx.clone();
                    shuttle::thread::spawn(move || (c, call(c, &fx)))
                })
                .collect();
            let mut bad = None;
            for hd in handles {
                let (c, obs) = hd.join().unwrap();
                if obs != fx.expected[c] {
                    bad = Some(format!("call '{}' returned {} (alone it returns {})", CALL_NAMES[c], show(&obs), show(&fx.expected[c])));
                }
            }
            if let Some(b) = bad {
                m2.lock().unwrap().push(b.clone());
                panic!("C18 mismatch: {b}");
            }
        })
    }));
    let n = schedules.load(Ordering::Relaxed);
    let ms = mismatches.lock().unwrap().clone();
    Outcome {
        schedules: n,
        mismatches: ms,
        distinct_traces: 0,
        capped: n as usize >= cap,
        panicked: r.err().map(|e| {
            if let Some(s) = e.downcast_ref::<String>() {
                s.clone()
            } else if let Some(s) = e.downcast_ref::<&str>() {
                s.to_string()
            } else {
                "<panic>".into()
            }
        }),
    }
}

/// what a call returns when it is the only thread of a scheduler run (the yardstick for every
/// harness with more threads: whether it is what the format prescribes is counted, not asserted -
/// a codec that is wrong on its own is not an isolation failure)
fn observe_alone(c: usize, fx: Arc<Fixtures>) -> Vec<u8> {
    FILTER.store(0, Ordering::Relaxed);
    let slot: Arc<Mutex<Option<Vec<u8>>>> = Arc::new(Mutex::new(None));
    let mut config = Config::new();
    config.silence_warnings = true;
    config.max_steps = MaxSteps::FailAfter(200_000);
    config.failure_persistence = FailurePersistence::None;
    let runner = Runner::new(DfsScheduler::new(Some(1), false), config);
    let s2 = slot.clone();
    let _ = catch_unwind(AssertUnwindSafe(move || {
        runner.run(move || {
            let fx = fx.clone();
            let obs = shuttle::thread::spawn(move || call(c, &fx)).join().unwrap();
            *s2.lock().unwrap() = Some(obs);
        })
    }));
    let r = slot.lock().unwrap().take();
    r.unwrap_or_else(|| b"<the call panics on its own>".to_vec())
}

fn show(b: &[u8]) -> String {
    if b.iter().all(|c| c.is_ascii_graphic() || *c == b' ') && !b.is_empty() {
        format!("\"{}\"", String::from_utf8_lossy(b))
    } else {
        b.iter().map(|x| format!("{x:02x}")).collect()
    }
}

fn main() {
    let args: Vec<String> = std::env::args().collect();
    let tier = args.iter().position(|a| a == "--tier").map(|i| args[i + 1].clone()).unwrap_or_else(|| "quick".into());
    let out = args.iter().position(|a| a == "--out").map(|i| args[i + 1].clone()).expect("--out <file>");
    let only = args.iter().position(|a| a == "--only").map(|i| args[i + 1].clone());
    let thorough = tier == "thorough";
    let part: Option<(usize, usize)> = args.iter().position(|a| a == "--part").map(|i| (args[i + 1].parse().unwrap(), args[i + 2].parse().unwrap()));
    std::panic::set_hook(Box::new(|_| {}));
    desert::verif::set_yield_hook(Some(hook));
    let model = fixtures();
    let model = Arc::new(model);
    let alone: Vec<Vec<u8>> = (0..N_CALLS).map(|c| observe_alone(c, model.clone())).collect();
    let alone_as_model = alone.iter().zip(&model.expected).filter(|(a, e)| a == e).count();
    let fx = Arc::new(Fixtures { outer_bytes: model.outer_bytes.clone(), expected: alone });

    // every call alone, inside the scheduler (the statics exist only there)
    let mut harnesses: Vec<Harness> = Vec::new();
    for c in 0..N_CALLS {
        harnesses.push(Harness { calls: vec![c], filter: 0 });
    }
    for f in 0..FILTERS.len() {
        for a in 0..N_CALLS {
            for b in a..N_CALLS {
                harnesses.push(Harness { calls: vec![a, b], filter: f });
            }
        }
    }
    if thorough {
        // three threads under the coarsest filter
        for a in 0..N_CALLS {
            for b in a..N_CALLS {
                for c in b..N_CALLS {
                    harnesses.push(Harness { calls: vec![a, b, c], filter: 1 });
                }
            }
        }
    }
    let cap: usize = std::env::var("VSCHED_CAP").ok().and_then(|s| s.parse().ok()).unwrap_or(if thorough { 20_000_000 } else { 2_000_000 });
    let persist = "/verif/replays";
    let _ = std::fs::create_dir_all(persist);
    let mut total = 0u64;
    let mut results = Vec::new();
    let mut violations = Vec::new();
    let mut capped = Vec::new();
    for (hi, h) in harnesses.iter().enumerate() {
        if let Some((i, n)) = part {
            if hi % n != i {
                continue;
            }
        }
        let key = format!("sched:{:?}/{}", h.calls, FILTERS[h.filter].0);
        if let Some(k) = &only {
            if *k != key {
                continue;
            }
        }
        let o = run_harness(h, fx.clone(), cap, persist);
        total += o.schedules;
        if o.capped {
            capped.push(key.clone());
        }
        let _ = o.distinct_traces;
        if !o.mismatches.is_empty() || o.panicked.is_some() {
            // whether the failure is believed is decided by the caller, which replays this part in
            // two fresh processes and demands identical observations
            violations.push(json!({
                "fingerprint": format!("C18 interleaving calls={:?} filter={}", h.calls.iter().map(|c| CALL_NAMES[*c]).collect::<Vec<_>>(), FILTERS[h.filter].0),
                "key": key,
                "detail": {"mismatch": o.mismatches.first(), "panic": o.panicked, "failing_schedule_number": o.schedules,
                           "schedule_files": "shuttle writes the failing schedule next to the replays (schedule*.txt)"},
            }));
        }
        results.push(json!({"harness": key, "schedules": o.schedules}));
    }
    let summary = json!({
        "schedules": total,
        "harnesses": results.len(),
        "per_harness": results,
        "violations": violations,
        "capped": capped,
        "cap": cap,
        "calls_whose_result_alone_is_what_the_model_prescribes": alone_as_model,
    });
    std::fs::write(&out, serde_json::to_string(&summary).unwrap()).expect("write summary");
    eprintln!("vsched: {} harnesses, {} schedules, {} violations, {} capped", harnesses.len(), total, violations.len(), capped.len());
}
