#![forbid(unsafe_code)]
#![allow(unused_mut, unused_variables, unused_assignments)]
// witness: ctx=ser object=string relation=outlives lookup=get_ref_by_id position=after
fn main() {
    let mut obj: String = String::from("first object, long enough to live on the heap");
    let mut ctx = desert::SerializationContext::new(Vec::<u8>::new());
    ctx.state_mut().store_ref(&obj);
    let found = ctx.state_mut().get_ref_by_id(desert::RefId(1));
    match found { Some(any) => match any.downcast_ref::<String>() { Some(x) => println!("read {:?}", x), None => println!("other type") }, None => println!("none") }
    let _ = &mut obj;
}
