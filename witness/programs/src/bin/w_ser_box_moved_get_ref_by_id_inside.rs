#![forbid(unsafe_code)]
#![allow(unused_mut, unused_variables, unused_assignments)]
// witness: ctx=ser object=box relation=moved lookup=get_ref_by_id position=inside
fn main() {
    let mut ctx = desert::SerializationContext::new(Vec::<u8>::new());
    let mut obj: Box<u64> = Box::new(0x1111_2222_3333_4444);
    ctx.state_mut().store_ref(&*obj);
    { let found = ctx.state_mut().get_ref_by_id(desert::RefId(1)); match found { Some(any) => match any.downcast_ref::<u64>() { Some(x) => println!("read {:?}", x), None => println!("other type") }, None => println!("none") } }
    let moved_to = obj; let _keep = &moved_to;
    let filler: Vec<Box<u64>> = (0..4).map(|i| Box::new(0x9999_0000u64 + i)).collect(); let _ = &filler;
    let found = ctx.state_mut().get_ref_by_id(desert::RefId(1));
    match found { Some(any) => match any.downcast_ref::<u64>() { Some(x) => println!("read {:?}", x), None => println!("other type") }, None => println!("none") }
}
