#![forbid(unsafe_code)]
#![allow(unused_mut, unused_variables, unused_assignments)]
// witness: ctx=de object=vec_elem relation=outlives lookup=get_ref_by_id position=after
fn main() {
    let mut obj: Vec<u64> = vec![0x1111_2222_3333_4444];
    let input = [1u8, 1u8]; let mut ctx = desert::DeserializationContext::new(&input);
    ctx.state_mut().store_ref(&obj[0]);
    let found = ctx.state_mut().get_ref_by_id(desert::RefId(1));
    match found { Some(any) => match any.downcast_ref::<u64>() { Some(x) => println!("read {:?}", x), None => println!("other type") }, None => println!("none") }
    let _ = &mut obj;
}
