#![forbid(unsafe_code)]
#![allow(unused_mut, unused_variables, unused_assignments)]
// witness: ctx=de object=stack_int relation=dropped lookup=try_read_ref position=after
fn main() {
    let input = [1u8, 1u8]; let mut ctx = desert::DeserializationContext::new(&input);
    let mut obj: u64 = 0x1111_2222_3333_4444;
    ctx.state_mut().store_ref(&obj);
    drop(obj);
    let filler: Vec<Box<u64>> = (0..4).map(|i| Box::new(0x9999_0000u64 + i)).collect(); let _ = &filler;
    let found = ctx.try_read_ref().unwrap();
    match found { Some(any) => match any.downcast_ref::<u64>() { Some(x) => println!("read {:?}", x), None => println!("other type") }, None => println!("none") }
}
