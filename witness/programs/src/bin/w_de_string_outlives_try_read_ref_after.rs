#![forbid(unsafe_code)]
#![allow(unused_mut, unused_variables, unused_assignments)]
// witness: ctx=de object=string relation=outlives lookup=try_read_ref position=after
fn main() {
    let mut obj: String = String::from("first object, long enough to live on the heap");
    let input = [1u8, 1u8]; let mut ctx = desert::DeserializationContext::new(&input);
    ctx.state_mut().store_ref(&obj);
    let found = ctx.try_read_ref().unwrap();
    match found { Some(any) => match any.downcast_ref::<String>() { Some(x) => println!("read {:?}", x), None => println!("other type") }, None => println!("none") }
    let _ = &mut obj;
}
