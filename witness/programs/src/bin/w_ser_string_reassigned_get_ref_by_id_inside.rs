#![forbid(unsafe_code)]
#![allow(unused_mut, unused_variables, unused_assignments)]
// witness: ctx=ser object=string relation=reassigned lookup=get_ref_by_id position=inside
fn main() {
    let mut ctx = desert::SerializationContext::new(Vec::<u8>::new());
    let mut obj: String = String::from("first object, long enough to live on the heap");
    ctx.state_mut().store_ref(&obj);
    { let found = ctx.state_mut().get_ref_by_id(desert::RefId(1)); match found { Some(any) => match any.downcast_ref::<String>() { Some(x) => println!("read {:?}", x), None => println!("other type") }, None => println!("none") } }
    obj = String::from("second object, also long enough for the heap...");
    let filler: Vec<Box<u64>> = (0..4).map(|i| Box::new(0x9999_0000u64 + i)).collect(); let _ = &filler;
    let found = ctx.state_mut().get_ref_by_id(desert::RefId(1));
    match found { Some(any) => match any.downcast_ref::<String>() { Some(x) => println!("read {:?}", x), None => println!("other type") }, None => println!("none") }
    let _ = &obj;
}
