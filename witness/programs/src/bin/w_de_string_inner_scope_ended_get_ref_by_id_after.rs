#![forbid(unsafe_code)]
#![allow(unused_mut, unused_variables, unused_assignments)]
// witness: ctx=de object=string relation=inner_scope_ended lookup=get_ref_by_id position=after
fn main() {
    let input = [1u8, 1u8]; let mut ctx = desert::DeserializationContext::new(&input);
    { let mut obj: String = String::from("first object, long enough to live on the heap"); ctx.state_mut().store_ref(&obj); let _ = &mut obj; }
    let filler: Vec<Box<u64>> = (0..4).map(|i| Box::new(0x9999_0000u64 + i)).collect(); let _ = &filler;
    let found = ctx.state_mut().get_ref_by_id(desert::RefId(1));
    match found { Some(any) => match any.downcast_ref::<String>() { Some(x) => println!("read {:?}", x), None => println!("other type") }, None => println!("none") }
}
