//! C19 (b): every short input through the decode paths implemented with unsafe code (fixed-size
//! arrays, byte vectors, reference lookup) and through the decoders of the types that carry a
//! validity invariant the compiler relies on (`char`: scalar values only, `bool`: 0 / 1, `String`:
//! UTF-8), on dedicated input sets that cover every way of violating the invariant. Run natively
//! and under Miri; the outputs must be identical and Miri must report no undefined behaviour.
#![forbid(unsafe_code)]
use desert::{deserialize, BinaryDeserializer, BinaryInput, DeserializationContext};
use std::fmt::Debug;
use std::rc::Rc;

const ALPHABET: [u8; 6] = [0x00, 0x01, 0x02, 0x03, 0x80, 0xff];

fn strings(max_len: usize) -> Vec<Vec<u8>> {
    let mut out: Vec<Vec<u8>> = vec![vec![]];
    let mut frontier: Vec<Vec<u8>> = vec![vec![]];
    for _ in 0..max_len {
        let mut next = Vec::new();
        for p in &frontier {
            for a in ALPHABET {
                let mut q = p.clone();
                q.push(a);
                next.push(q);
            }
        }
        out.extend(next.iter().cloned());
        frontier = next;
    }
    out
}

fn run<T: BinaryDeserializer + Debug>(name: &str, inputs: &[Vec<u8>], sum: &mut u64) {
    let mut ok = 0;
    for i in inputs {
        let r = deserialize::<T>(i);
        let line = match &r {
            Ok(v) => {
                ok += 1;
                format!("{name}|{i:02x?}|Ok {v:?}")
            }
            Err(_) => format!("{name}|{i:02x?}|Err"),
        };
        for b in line.bytes() {
            *sum = sum.wrapping_mul(0x100000001b3) ^ b as u64;
        }
        if r.is_ok() {
            println!("{line}");
        }
    }
    println!("{name}: {} inputs, {ok} accepted", inputs.len());
}

/// reference lookup: a node list codec on the public reference-tracking API (safe code)
#[derive(Debug)]
struct Cell {
    label: u8,
}

fn refs(input: &[u8]) -> String {
    let mut ctx = DeserializationContext::new(input);
    let mut alive: Vec<Rc<Cell>> = Vec::new();
    let mut seen = Vec::new();
    loop {
        match ctx.try_read_ref() {
            Ok(Some(any)) => match any.downcast_ref::<Cell>() {
                Some(c) => seen.push(format!("ref->{}", c.label)),
                None => seen.push("ref->?".into()),
            },
            Ok(None) => match ctx.read_u8() {
                Ok(l) => {
                    let c = Rc::new(Cell { label: l });
                    {
                        let r: &Cell = &c;
                        ctx.state_mut().store_ref(r);
                    }
                    alive.push(c);
                    seen.push(format!("new {l}"));
                }
                Err(_) => {
                    seen.push("eof".into());
                    break;
                }
            },
            Err(e) => {
                seen.push(format!("err {e:?}"));
                break;
            }
        }
    }
    seen.join(",")
}

/// `DeduplicatedString` has no `Debug`
#[derive(Debug)]
struct Dd(#[allow(dead_code)] String);

impl BinaryDeserializer for Dd {
    fn deserialize(ctx: &mut DeserializationContext<'_>) -> desert::Result<Self> {
        Ok(Dd(desert::DeduplicatedString::deserialize(ctx)?.0))
    }
}

/// two-byte inputs: every pair over the bytes at which the classes of UTF-16 code units change;
/// when `all`, every low byte under each of those high bytes (the whole 256-unit rows on both
/// sides of each edge of the surrogate block, and the first and last rows of the code space)
fn char_inputs(all: bool) -> Vec<Vec<u8>> {
    let edge: Vec<u8> = vec![0x00, 0x01, 0x61, 0x7f, 0x80, 0xd7, 0xd8, 0xdb, 0xdc, 0xdf, 0xe0, 0xfe, 0xff];
    let low: Vec<u8> = if all { (0..=255u8).collect() } else { edge.clone() };
    let mut out = Vec::new();
    for a in &edge {
        for b in &low {
            out.push(vec![*a, *b]);
        }
    }
    out
}

/// strings whose length prefix is right and whose bytes are not UTF-8 (every class of ill-formed
/// sequence: lone continuation, truncated lead, overlong, surrogate, above U+10FFFF, bad lead)
fn utf8_inputs() -> Vec<Vec<u8>> {
    let bodies: [&[u8]; 14] = [
        &[0x80],
        &[0xbf],
        &[0xc3],
        &[0xc3, 0x28],
        &[0xc0, 0xaf],
        &[0xc1, 0xbf],
        &[0xe0, 0x80, 0xaf],
        &[0xe2, 0x82],
        &[0xed, 0xa0, 0x80],
        &[0xed, 0xbf, 0xbf],
        &[0xf0, 0x80, 0x80, 0xaf],
        &[0xf4, 0x90, 0x80, 0x80],
        &[0xf8, 0x88, 0x80, 0x80, 0x80],
        &[0xff],
    ];
    let mut out = Vec::new();
    for b in bodies {
        for (pre, post) in [(&[][..], &[][..]), (&b"a"[..], &b"b"[..])] {
            let body: Vec<u8> = [pre, b, post].concat();
            let mut i = vec![(body.len() as u8) << 1];
            i.extend(body);
            out.push(i);
        }
    }
    out
}

fn main() {
    let max_len: usize = std::env::args().nth(1).and_then(|s| s.parse().ok()).unwrap_or(3);
    let inputs = strings(max_len);
    let mut sum = 0xcbf29ce484222325u64;
    run::<[u8; 0]>("[u8;0]", &inputs, &mut sum);
    run::<[u8; 1]>("[u8;1]", &inputs, &mut sum);
    run::<[u8; 3]>("[u8;3]", &inputs, &mut sum);
    run::<[u8; 17]>("[u8;17]", &inputs, &mut sum);
    run::<[u16; 2]>("[u16;2]", &inputs, &mut sum);
    run::<[String; 2]>("[String;2]", &inputs, &mut sum);
    run::<[Option<Box<u8>>; 3]>("[Option<Box<u8>>;3]", &inputs, &mut sum);
    run::<[(); 2]>("[();2]", &inputs, &mut sum);
    run::<Vec<u8>>("Vec<u8>", &inputs, &mut sum);
    run::<Vec<[u8; 2]>>("Vec<[u8;2]>", &inputs, &mut sum);
    run::<bytes::Bytes>("Bytes", &inputs, &mut sum);
    run::<Option<[u8; 2]>>("Option<[u8;2]>", &inputs, &mut sum);
    // validity invariants: a decoder must never hand out a value outside its type
    run::<char>("char", &inputs, &mut sum);
    run::<bool>("bool", &inputs, &mut sum);
    run::<String>("String", &inputs, &mut sum);
    if max_len >= 4 {
        run::<Vec<char>>("Vec<char>", &inputs, &mut sum);
        run::<Option<bool>>("Option<bool>", &inputs, &mut sum);
        run::<(char, bool)>("(char,bool)", &inputs, &mut sum);
    }
    run::<char>("char/16-bit units", &char_inputs(max_len >= 4), &mut sum);
    run::<bool>("bool/all bytes", &(0..=255u8).map(|b| vec![b]).collect::<Vec<_>>(), &mut sum);
    run::<String>("String/ill-formed UTF-8", &utf8_inputs(), &mut sum);
    run::<Dd>("DeduplicatedString/ill-formed UTF-8", &utf8_inputs(), &mut sum);
    for i in &inputs {
        let line = format!("refs|{i:02x?}|{}", refs(i));
        for b in line.bytes() {
            sum = sum.wrapping_mul(0x100000001b3) ^ b as u64;
        }
        if max_len > 0 && i.len() == max_len && i[0] == 0 && i.iter().any(|b| *b == 1) {
            println!("{line}");
        }
    }
    println!("refs: {} inputs", inputs.len());
    println!("CHECKSUM {sum:016x}");
}
