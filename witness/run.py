#!/usr/bin/env python3
"""C19: memory safety of the safe public API.

(a) enumerates all client programs of a small grammar over the per-stream object-table API
    (context kind x object kind x lifetime relation x lookup x lookup position), each compiled
    with #![forbid(unsafe_code)]; the compiler gives its verdict per program and every accepted
    program is executed under Miri.  Oracle: accepted => no undefined behaviour.
(b) runs every short input through the decode paths implemented with unsafe code natively and
    under Miri: no UB, identical output.
"""
import hashlib, json, os, re, subprocess, sys, time
from concurrent.futures import ThreadPoolExecutor

ROOT = "/verif"
W = os.path.join(ROOT, "witness")
ENV = dict(os.environ, CARGO_NET_OFFLINE="true", TZ="UTC",
           CARGO_TARGET_DIR=os.path.join(ROOT, ".target-witness"),
           MIRIFLAGS=os.environ.get("MIRIFLAGS", ""))
ENV["RUSTFLAGS"] = (os.environ.get("RUSTFLAGS", "") + " --cfg desert_verif").strip()

CTX = ["ser", "de"]
OBJ = ["stack_int", "box", "string", "vec_elem"]
REL = ["outlives", "same_scope", "inner_scope_ended", "moved", "dropped", "reassigned"]
LOOKUP = ["get_ref_by_id", "try_read_ref"]
POS = ["inside", "after"]


def decl(obj, name="obj"):
    return {
        "stack_int": f"let mut {name}: u64 = 0x1111_2222_3333_4444;",
        "box": f"let mut {name}: Box<u64> = Box::new(0x1111_2222_3333_4444);",
        "string": f"let mut {name}: String = String::from(\"first object, long enough to live on the heap\");",
        "vec_elem": f"let mut {name}: Vec<u64> = vec![0x1111_2222_3333_4444];",
    }[obj]


def target(obj, name="obj"):
    return {"stack_int": f"&{name}", "box": f"&*{name}", "string": f"&{name}", "vec_elem": f"&{name}[0]"}[obj]


def ty(obj):
    return {"stack_int": "u64", "box": "u64", "string": "String", "vec_elem": "u64"}[obj]


def disturb(rel, obj):
    """what happens to the object between store and lookup"""
    if rel == "moved":
        return "let moved_to = obj; let _keep = &moved_to;"
    if rel == "dropped":
        return "drop(obj);"
    if rel == "reassigned":
        return {
            "stack_int": "obj = 0x5555_6666_7777_8888;",
            "box": "obj = Box::new(0x5555_6666_7777_8888);",
            "string": "obj = String::from(\"second object, also long enough for the heap...\");",
            "vec_elem": "obj.push(2); obj.push(3); obj.push(4); obj.push(5);",
        }[obj]
    return ""


def program(ctx, obj, rel, lookup, pos):
    if ctx == "ser" and lookup == "try_read_ref":
        return None
    new_ctx = ("let mut ctx = desert::SerializationContext::new(Vec::<u8>::new());" if ctx == "ser"
               else "let input = [1u8, 1u8]; let mut ctx = desert::DeserializationContext::new(&input);")
    store = f"ctx.state_mut().store_ref({target(obj)});"
    if lookup == "get_ref_by_id":
        look = "let found = ctx.state_mut().get_ref_by_id(desert::RefId(1));"
    else:
        look = "let found = ctx.try_read_ref().unwrap();"
    use = (f"match found {{ Some(any) => match any.downcast_ref::<{ty(obj)}>() {{ Some(x) => println!(\"read {{:?}}\", x), "
           f"None => println!(\"other type\") }}, None => println!(\"none\") }}")
    filler = "let filler: Vec<Box<u64>> = (0..4).map(|i| Box::new(0x9999_0000u64 + i)).collect(); let _ = &filler;"
    body = []
    if rel == "outlives":
        body += [decl(obj), new_ctx, store, look, use, "let _ = &mut obj;"]
    elif rel == "same_scope":
        body += [new_ctx, decl(obj), store, look, use, "let _ = &mut obj;"]
    elif rel == "inner_scope_ended":
        inner = [decl(obj), store]
        if pos == "inside":
            inner += ["{ " + look + " " + use + " }"]
        body += [new_ctx, "{ " + " ".join(inner) + " let _ = &mut obj; }", filler, look, use]
    else:
        body += [new_ctx, decl(obj), store]
        if pos == "inside":
            body += ["{ " + look + " " + use + " }"]
        body += [disturb(rel, obj), filler, look, use]
        if rel == "reassigned":
            body += ["let _ = &obj;"]
    src = "#![forbid(unsafe_code)]\n#![allow(unused_mut, unused_variables, unused_assignments)]\n"
    src += f"// witness: ctx={ctx} object={obj} relation={rel} lookup={lookup} position={pos}\n"
    src += "fn main() {\n    " + "\n    ".join(b for b in body if b) + "\n}\n"
    return src


def catalogue(tier):
    progs = []
    for c in CTX:
        for o in OBJ:
            for r in REL:
                for l in LOOKUP:
                    for p in POS:
                        if r in ("outlives", "same_scope") and p == "inside":
                            continue
                        src = program(c, o, r, l, p)
                        if src is None:
                            continue
                        name = f"w_{c}_{o}_{r}_{l}_{p}"
                        progs.append((name, dict(ctx=c, object=o, relation=r, lookup=l, position=p), src))
    if tier == "quick":
        keep = []
        for name, meta, src in progs:
            if meta["object"] in ("box", "vec_elem") and meta["position"] == "after" and \
               ((meta["ctx"] == "de" and meta["lookup"] == "try_read_ref") or (meta["ctx"] == "ser")):
                keep.append((name, meta, src))
        progs = keep
    return progs


def sh(cmd, **kw):
    return subprocess.run(cmd, cwd=W, env=ENV, capture_output=True, text=True, **kw)


def main():
    tier = sys.argv[1] if len(sys.argv) > 1 else "quick"
    only = None
    if "--only" in sys.argv:
        only = sys.argv[sys.argv.index("--only") + 1]
    t0 = time.time()
    progs = catalogue(tier)
    if only and only.startswith("w_"):
        progs = [p for p in catalogue("thorough") if p[0] == only]
    bindir = os.path.join(W, "programs", "src", "bin")
    os.makedirs(bindir, exist_ok=True)
    wanted = {name + ".rs" for name, _, _ in progs}
    for f in os.listdir(bindir):
        if f not in wanted:
            os.remove(os.path.join(bindir, f))
    for name, _, src in progs:
        path = os.path.join(bindir, name + ".rs")
        if not os.path.exists(path) or open(path).read() != src:
            open(path, "w").write(src)

    # the compiler's verdict per program
    r = sh(["cargo", "check", "--offline", "--keep-going", "-p", "programs", "--bins", "--message-format=short"])
    rejected = set(re.findall(r'could not compile `programs` \(bin "([^"]+)"\)', r.stderr))
    if r.returncode != 0 and not rejected:
        print("MACHINERY: cargo check of the witness programs failed:\n" + r.stderr[-2000:])
        return 2
    accepted = [p for p in progs if p[0] not in rejected]

    # Miri on every accepted program
    def miri(p):
        name = p[0]
        rr = sh(["cargo", "+nightly", "miri", "run", "--offline", "-q", "-p", "programs", "--bin", name], timeout=900)
        out = rr.stdout + rr.stderr
        if "Undefined Behavior" in out:
            m = re.search(r"Undefined Behavior: ([^\n]*)", out)
            return name, "UB", (m.group(1) if m else "")[:300]
        if rr.returncode != 0:
            return name, "machinery", out[-600:]
        return name, "clean", rr.stdout.strip()[:200]

    # build the dependencies once, then run in parallel
    warm = sh(["cargo", "+nightly", "miri", "run", "--offline", "-q", "-p", "sweep", "--", "0"], timeout=1800)
    # (undefined behaviour found already by the warm-up run is a finding of the sweep below, not a
    # failure of the machinery)
    if warm.returncode != 0 and "Undefined Behavior" not in (warm.stdout + warm.stderr):
        print("MACHINERY: Miri cannot run the sweep program:\n" + (warm.stdout + warm.stderr)[-2000:])
        return 2
    with ThreadPoolExecutor(max_workers=12) as ex:
        results = list(ex.map(miri, accepted))
    mach = [x for x in results if x[1] == "machinery"]
    if mach:
        print("MACHINERY: Miri failed on", mach[0][0], "\n", mach[0][2])
        return 2

    # (b) unsafe decode paths: native vs Miri
    depth = "4" if tier == "thorough" else "3"
    nat = sh(["cargo", "run", "--offline", "-q", "--release", "-p", "sweep", "--", depth])
    if nat.returncode != 0:
        print("MACHINERY: native sweep failed:\n" + nat.stderr[-1500:])
        return 2
    mir = sh(["cargo", "+nightly", "miri", "run", "--offline", "-q", "-p", "sweep", "--", depth], timeout=3600)
    sweep_ub = "Undefined Behavior" in (mir.stdout + mir.stderr)
    if mir.returncode != 0 and not sweep_ub:
        print("MACHINERY: Miri sweep failed:\n" + (mir.stdout + mir.stderr)[-1500:])
        return 2
    sweep_same = (nat.stdout == mir.stdout)
    n_inputs = sum(int(x) for x in re.findall(r": (\d+) inputs", nat.stdout))

    known = []
    try:
        known = [k for k in json.load(open(os.path.join(ROOT, "known_findings.json")))["findings"]
                 if k["property"] == "C19" and k["status"] == "known"]
    except Exception:
        pass

    def is_known(fp):
        for k in known:
            pat = k["fingerprint"]
            if (pat.endswith("*") and fp.startswith(pat[:-1])) or pat == fp:
                return k
        return None

    violations, announced, known_hits = [], set(), 0
    metas = {p[0]: p[1] for p in progs}
    for name, verdict, info in results:
        if verdict == "UB":
            m = metas[name]
            api = "store_ref->" + m["lookup"]
            fp = f"C19 safe-program-UB api={api} ctx={m['ctx']} object={m['object']} relation={m['relation']} position={m['position']}"
            k = is_known(fp)
            if k:
                known_hits += 1
                if k["fingerprint"] not in announced:
                    announced.add(k["fingerprint"])
                    print(f"KNOWN-FINDING: property=C19 {k['what']} [{k['fingerprint']}]")
            else:
                violations.append((fp, name, info))
    if sweep_ub:
        m = re.search(r"Undefined Behavior: ([^\n]*)", mir.stdout + mir.stderr)
        violations.append(("C19 decode-path-UB " + (m.group(1) if m else "")[:120], "sweep", (mir.stdout + mir.stderr)[-800:]))
    elif not sweep_same:
        violations.append(("C19 decode-path native and Miri outputs differ", "sweep", "native:\n" + nat.stdout[-400:] + "\nmiri:\n" + mir.stdout[-400:]))

    clean = [x for x in results if x[1] == "clean"]
    ub = [x for x in results if x[1] == "UB"]
    ev = {
        "property_id": "C19", "tier": tier, "seed": int(os.environ.get("VERIF_SEED", "0") or 0),
        "level": "exploration",
        "coverage": {
            "evaluations": len(progs) + n_inputs,
            "distinct_nontrivial": len(accepted) + n_inputs,
            "rule": "all client programs of the grammar {context kind} x {object kind} x {lifetime relation} x {lookup} x {position}, each #![forbid(unsafe_code)]: compiler verdict, accepted ones under Miri; plus every byte string of length <= %s over a 6-byte alphabet through 12 array / byte-vector decode paths and a reference-lookup codec, natively and under Miri. Non-trivial = accepted program executed under Miri / input executed under Miri." % depth,
            "samples": [dict(program=results[0][0], verdict=results[0][1], output=results[0][2])] if results else ["(none)"],
            "programs_generated": len(progs), "rejected_by_compiler": len(rejected),
            "accepted_and_clean_under_miri": len(clean), "accepted_and_UB_under_miri": len(ub),
            "ub_programs": [x[0] for x in ub][:200],
            "decode_path_inputs_under_miri": n_inputs, "decode_path_miri_ub": sweep_ub,
            "decode_path_native_equals_miri": sweep_same,
            "native_checksum": (re.findall(r"CHECKSUM (\w+)", nat.stdout) or [""])[0],
            "known_finding_hits": known_hits, "exhaustive": True,
        },
        "assumptions": ["rustc and Miri are the oracles (trusted)", "the program grammar is the one stated; a soundness hole outside it is not found"],
        "wall_s": time.time() - t0, "violations": len(violations),
    }
    if not only:
        os.makedirs(os.path.join(ROOT, "evidence"), exist_ok=True)
        json.dump(ev, open(os.path.join(ROOT, "evidence", "C19.json"), "w"), indent=1)
    print(f"[C19 {tier}] programs={len(progs)} rejected={len(rejected)} accepted_clean={len(clean)} accepted_UB={len(ub)} "
          f"decode_inputs_under_miri={n_inputs} sweep_ub={sweep_ub} native==miri={sweep_same} violations={len(violations)} wall={time.time()-t0:.0f}s")
    if not violations:
        return 0
    os.makedirs(os.path.join(ROOT, "replays"), exist_ok=True)
    for fp, name, info in violations[:25]:
        h = hashlib.sha1(fp.encode()).hexdigest()[:16]
        path = os.path.join(ROOT, "replays", f"C19-{h}.json")
        json.dump({"property": "C19", "tier": tier, "fingerprint": fp, "only": name, "detail": info}, open(path, "w"), indent=1)
        print(f"VIOLATION property=C19 replay={path}")
        print(f"  fingerprint: {fp}")
    return 1


sys.exit(main())
