//! C18, supplementary part (e): the harness bodies of the schedule explorer (first use and steady
//! state of derived codecs, the string table, a failing encode), run by real threads
//! under Miri's data-race detector. The cooperative scheduler of part (a) orders everything it
//! does not interleave, so an unsynchronised access inside the library is invisible to it; Miri's
//! vector clocks see it in whatever schedule the seed produces. Each thread's results are compared
//! with the same calls made afterwards on a single thread.
//!
//! usage: race <threads> <rounds>; prints "RACE-OK calls=<n>" or "RACE-DIFF <what>".
use desert::{deserialize, serialize_to_byte_vec, BinaryCodec, BinaryDeserializer, BinarySerializer, DeduplicatedString};
use std::sync::{Arc, Barrier};

#[derive(BinaryCodec)]
#[evolution(FieldAdded("n", None), FieldRemoved("zz"))]
struct Inner {
    a: u8,
    n: Option<String>,
}

#[derive(BinaryCodec)]
#[evolution(FieldAdded("tag", DeduplicatedString("t".to_string())), FieldRemoved("zz"))]
struct Outer {
    inner: Inner,
    s1: DeduplicatedString,
    s2: DeduplicatedString,
    tag: DeduplicatedString,
}

#[derive(BinaryCodec)]
enum Choice {
    A,
    B(u8),
    #[evolution(FieldAdded("y", 7u8))]
    C {
        x: String,
        y: u8,
    },
}

#[derive(BinaryCodec)]
enum Att {
    Plain(u8),
    #[transient]
    Temp,
}

#[derive(BinaryCodec)]
#[evolution(FieldAdded("att", Att::Plain(0)))]
struct Envelope {
    id: u32,
    att: Att,
}

fn calls() -> Vec<Box<dyn Fn() -> String + Send + Sync>> {
    let outer = Outer {
        inner: Inner { a: 3, n: Some("x".into()) },
        s1: DeduplicatedString("dup".into()),
        s2: DeduplicatedString("dup".into()),
        tag: DeduplicatedString("t".into()),
    };
    let choice = Choice::C { x: "é".into(), y: 9 };
    let env_ok = Envelope { id: 7, att: Att::Plain(1) };
    let env_bad = Envelope { id: 7, att: Att::Temp };
    // bytes, then the bytes of the decoded value encoded again (the subjects have no Debug)
    fn rt<T: BinarySerializer + BinaryDeserializer>(v: &T) -> String {
        match serialize_to_byte_vec(v) {
            Ok(b) => format!("{:02x?} -> {:?}", b, deserialize::<T>(&b).map_err(|e| format!("{e:?}")).map(|d| serialize_to_byte_vec(&d).map_err(|e| format!("{e:?}")))),
            Err(e) => format!("encode error {e:?}"),
        }
    }
    vec![
        Box::new(move || rt(&outer)),
        Box::new(move || rt(&choice)),
        Box::new(move || rt(&env_ok)),
        Box::new(move || rt(&env_bad)),
        Box::new(|| rt(&(Some(vec![1u16, 2]), "s".to_string(), [7u8; 3]))),
        Box::new(|| format!("{:?}", deserialize::<Outer>(&[1, 2, 3]).map(|_| ()).map_err(|e| format!("{e:?}")))),
        Box::new(|| format!("{:?}", deserialize::<Choice>(&[0, 9]).map(|_| ()).map_err(|e| format!("{e:?}")))),
    ]
}

fn main() {
    let args: Vec<String> = std::env::args().collect();
    let threads: usize = args.get(1).and_then(|s| s.parse().ok()).unwrap_or(3);
    let rounds: usize = args.get(2).and_then(|s| s.parse().ok()).unwrap_or(2);
    let cs = Arc::new(calls());
    let bar = Arc::new(Barrier::new(threads));
    let mut hs = Vec::new();
    for t in 0..threads {
        let cs = cs.clone();
        let bar = bar.clone();
        hs.push(std::thread::spawn(move || {
            bar.wait();
            let mut out = Vec::new();
            for r in 0..rounds {
                for k in 0..cs.len() {
                    // each thread starts at a different call, so first uses of different types collide
                    let i = (k + t * 2 + r) % cs.len();
                    out.push((i, cs[i]()));
                }
            }
            out
        }));
    }
    let got: Vec<Vec<(usize, String)>> = hs.into_iter().map(|h| h.join().expect("thread panicked")).collect();
    let alone: Vec<String> = cs.iter().map(|c| c()).collect();
    let mut n = 0;
    for (t, g) in got.iter().enumerate() {
        for (i, s) in g {
            n += 1;
            if *s != alone[*i] {
                println!("RACE-DIFF thread={t} call={i} concurrent={s} alone={}", alone[*i]);
                std::process::exit(0);
            }
        }
    }
    println!("RACE-OK calls={n}");
}
