#!/bin/bash
# ./check C19 dispatches here: run.sh <tier> [--only <key>]
cd "$(dirname "$0")"
python3 run.py "$@"
CODE=$?
if [ $CODE -eq 0 ] && [ -z "$2" ] && command -v python3-vt >/dev/null 2>&1; then
  python3-vt -c "
import json,jsonschema
jsonschema.validate(json.load(open('/verif/evidence/C19.json')), json.load(open('/root/.vp/EVIDENCE.schema.json')))" || { echo "MACHINERY: evidence invalid"; exit 2; }
fi
exit $CODE
