#!/usr/bin/env python3
"""Writes MANIFEST.json from the table below (kept in one place so that it stays valid)."""
import json, subprocess

CHECKS = {
 "C01": ("model_checking", "6 C01", "exhaustive enumeration of (built-in type expression, small-scope value) pairs, each executed on the real library and compared with the independent format model",
         "No (type expression of depth <= 3 over all built-in constructors, value of its boundary-value domain) fails to round trip bit-exactly through serialize_to_byte_vec / serialize_to_bytes / deserialize, and the model decodes the same bytes to the same value. Coverage statement within the bounds, not a proof for unbounded nesting."),
 "C02": ("translation_validation", "6 C02", "translation validation of the derive macro: every generated declaration x every small-scope value, derived impl vs the declaration interpreted by the independent model vs a field-by-field driver over the real Adt* API",
         "For every declaration of the generated grammar (1 174 quick / 3 763 thorough programs) and every value: derived bytes == model bytes == driver bytes; decode of the own encoding and of every alternative form agrees three ways; truncations and single-byte rewrites are judged alike by the derived impl and the driver. History declarations rotate over five spellings of their field types (incl. parenthesised and macro_rules `$t:ty` fragments)."),
 "C03": ("model_checking", "6 C03", "exhaustive enumeration of legal evolution histories x (writer, reader) pairs x values x placements on the real record machinery, against a semantic outcome oracle and the model's byte-level reader",
         "Every legal history up to the depth bound, every version pair along it, every small-scope value, at top level and embedded (v0 outer, evolved outer, Vec): the reader's result equals expected(H,w,r,v) (value or the specific error naming the field) and sibling data is intact. Derived types to depth 2/3, dynamic driver over the real AdtSerializer/AdtDeserializer to depth 3/4."),
 "C04": ("model_checking", "6 C04", "byte-for-byte comparison of every encoding of the universe with an independent reference encoder anchored to the Scala golden file; decode of every alternative legal form",
         "For every (type, value) of the universes the library's bytes equal the reference encoder's, and every assignment of alternative legal forms (unknown-size sequences, re-plain dedup strings) decodes to the denoted value. The model itself reproduces the 242 540 Scala golden bytes exactly (refmodel/tests/golden.rs)."),
 "C05": ("model_checking", "6 C05", "exhaustive enumeration of short byte strings over a format alphabet and over all byte values, and of all 1-point (thorough: 2-point) tamperings / framing rewrites / splices of valid encodings, per target type and build profile, under panic, watchdog and allocation monitors",
         "For every table row (952 type expressions + 1 174 declarations quick) every byte string over the 12-byte alphabet up to length 4/5 (5/7 for the deep set), every byte string over all 256 values up to length 2 (3), every operation sequence on the three low-level readers, and every tampering of every valid encoding decodes to Ok or Err - no unwind, no abort (child process), no hang (watchdog), no single allocation request above max(64 KiB, 16 x input length) - in an overflow-checked and in a plain release build. Containers of zero-width elements are the recorded known finding. Also: four nested-evolved declarations and, per history declaration, the encodings written by every other version of its histories (untouched and 1-point tampered); the operation sequences also run on a context inside a chunk of an evolved record."),
 "C06": ("model_checking", "6 C06", "same executions as C05; whenever the library accepts an input the strict reference decoder (leniencies of DESIGN 4.5 only) must assign it the same value",
         "Sandwich of the accepted language: every input of the C05 sweeps that the library decodes to Ok(v) is decoded to the same v by the strict reference decoder (about 50 M accepted inputs in the quick tier, 7.9 G in the thorough tier); together with C04-backward this bounds the decoder from both sides. Also over the encodings written by every other version of each history (untouched and 1-point tampered) and the nested-evolved declarations."),
 "C07": ("model_checking", "6 C07", "exhaustive enumeration of (type, value, suffix) and (history, w, r, value, suffix): decode from a DeserializationContext, then observe the unread bytes",
         "For every value of the universes and 8 suffixes, decoding consumes exactly the encoding; for evolved records under every writer/reader pair with stored version >= 1 (and version 0 without removals). Also sequences, sets and maps of 65 535 .. 131 073 elements followed by a suffix."),
 "C08": ("fault_enumeration", "6 C08", "enumeration of every cut point of every encoding of the universes (crash-point enumeration of a torn write)",
         "Every strict prefix of every encoding (all cut points up to 600 bytes, boundary-heavy subset beyond) is rejected with Err; evolved records also under every other definition of their history when the stored version is >= 1."),
 "C09": ("model_checking", "6 C09", "exhaustive enumeration of scripts of deduplicated / plain string writes x seven placements, executed on the real library and compared with the model and with the statement's own id arithmetic",
         "All scripts up to length 5 (6) over 8 operations in 7 placements: decoded strings equal the written ones, ids follow first occurrence in stream-processing order (header names first), streams without repeats are byte-identical to the plain stream, unknown ids are Err. An eighth placement names two fields twice each in the header (made optional, later removed / made transient)."),
 "C10": ("model_checking", "6 C10", "exhaustive enumeration of rooted digraphs (<= 3 / 4 nodes, out-degree <= 2) through a safe harness codec on the public reference-tracking API, against a reference pre-order numbering and an isomorphism check with pointer equality",
         "All 2 249 (quick) / 196 730 (thorough) graphs, plus graphs with two tracked object types at one address and chains of up to 600 nodes: stream equals the reference stream, decoded graph is isomorphic with shared nodes shared and distinct nodes distinct, encoding terminates on every cyclic graph, every reference id beyond the objects introduced so far is Err. Every graph also as a field of a record through the real Adt API (plain, chunk 0, chunk 1); one object offered from code in two crates stays one object."),
 "C11": ("model_checking", "6 C11", "exhaustive enumeration of all 2^32 unsigned and all 2^32 signed values against a reference formula (no bound)",
         "Quick: all 2^33 values through Vec<u8> -> SliceInput plus a structured boundary subset through the other 16 combinations; thorough: all 2^33 values through all 18 (signedness, sink, source) combinations. Exhaustive outright in the thorough tier."),
 "C12": ("model_checking", "6 C12", "exhaustive enumeration of element lists x source containers x target containers x size forms, decode followed by a sentinel",
         "All lists of length <= 3 over 5 element types, every source (incl. slices and reference-built unknown-size streams) read as every target container; maps and byte containers pairwise. Also u8 elements among list / sets, and streams of up to 300 (5 000) sibling sequences in every combination of size forms read as four nested containers."),
 "C13": ("model_checking", "6 C13", "exhaustive enumeration of enum declarations with one-variant extensions x values x constructor indices, compiled and through the dynamic driver",
         "All enums with <= 3 variants over 7 variant kinds, sorted and unsorted, each with its extensions: old data keeps its meaning under the extension, new-variant data and every unknown / transient index is Err (never an unwind), leading bytes are 00 varu(index). Fieldless enums with explicit discriminants are part of the universe."),
 "C14": ("model_checking", "6 C14", "exhaustive enumeration of declarations with transient fields / constructors x values; histories ending in FieldMadeTransient",
         "Transient fields never change the bytes and decode to their declared default (defaults differ from every enumerated value); transient constructors give the dedicated error through every sink; every history prefix ending in FieldMadeTransient stays encodable. For every compiled history with a FieldMadeTransient step, data written before the step and read after it leaves the declared default in the field."),
 "C16": ("fault_enumeration", "6 C16", "enumeration of contents x levels x sinks x sources, frames parsed independently and inflated by Python zlib; per frame every truncation, every single-bit flip and boundary rewrites of both header fields",
         "Round trip and true framing for the whole corpus at every compression level; raw DEFLATE streams inflate identically under Python's zlib; every truncation is Err; every bit flip / header rewrite is Ok or Err without unwinding and without an allocation request out of proportion. Contents <= 4 KiB also inside records through the real Adt API (plain, chunk 0, chunk 1), with every truncation of those records."),
 "C17": ("model_checking", "6 C17", "exhaustive enumeration of all Unicode scalar values, boundary lengths on zero-width containers and exact-size iterators, metadata naming unknown fields, and every value of the universe",
         "Every encode returns Ok or the documented Err variant (UnsupportedCharacter with the character, LengthTooLarge at and above 2^31, SerializingTransientConstructor, UnknownFieldReferenceInEvolutionStep); no unwind anywhere in the enumerated space. Also every evolution step list of length <= 3 (4) over four step kinds x three names, legal or not. Also records of 1 .. 300 fields in one chunk (around the one-byte position limits) with four evolution shapes."),
 "C15": ("model_checking", "6 C15", "exhaustive enumeration of (type, value) x six sinks on the same instance; op-sequence exploration on the three sources",
         "Bytes through Vec, BytesMut, serialize_to_bytes, serialize_to_byte_vec and a recording user output are identical and SizeCalculator equals their length, for every value of the universes; the three BinaryInput implementations agree step by step on every operation sequence of depth <= 3 (4) over 22 operations with boundary and extreme counts on every short input. Also: the context inside a chunk of an evolved record as a fourth input implementation; every script (length <= 2 / 3) of the 18 output primitives issued by a field codec in four placements through three sinks."),
 "C18": ("model_checking", "6 C18", "stateless exploration of all interleavings (shuttle DFS scheduler, no preemption bound) of small thread bodies on the real code with scheduler-visible metadata statics and hook points; every call sequence up to a depth in fresh processes",
         "No interleaving of 2 (thorough: 3) threads doing first-use / steady-state encode and decode, under three hook granularities, and no sequence of up to 3 (4) prior calls (11 calls, one failing half-way, one filling the reference table) changes what a call returns: each result equals the result of the call alone and the reference model's bytes. 2.7 M schedules in the quick tier, none capped. A supplementary part samples free-running OS threads and is labelled as sampling in the evidence; it carries no claim. (f) every row of the type table used first in a fresh process, then every row, compared with a process without that first use. Supplementary, sampled and labelled so: (d) free-running OS threads, (e) the bodies on real threads under Miri's data-race detector."),
 "C19": ("exploration", "6 C19", "enumeration of all client programs of a grammar over the object-table API under #![forbid(unsafe_code)] (compiler verdict, then Miri on every accepted program); every short input through the unsafe decode paths natively and under Miri",
         "Every program of the grammar that the compiler accepts is executed under Miri: accepted => no undefined behaviour (the programs that are accepted and UB are the recorded known finding about State::store_ref). 3 367 (quick) inputs through 12 array / byte-vector decode paths and a reference-lookup codec run under Miri without UB and with output identical to the native run. The sweep also covers the decoders of char / bool / String / DeduplicatedString on inputs that violate their validity invariants in every possible way."),
}

NOT_YET = {
}

NOTE = "Trusted base: rustc, the Bridge conversions (typed value <-> dynamic value), chrono/bigdecimal/uuid/flate2 crates, the reference model (anchored to the Scala golden file and the repository's Point vector). Bounded exhaustive exploration: a defect that needs nesting depth > 3, containers longer than 3, or histories longer than the bound is not found."

def main():
    hook_commits = []
    try:
        out = subprocess.run(["git", "-C", "/repo", "log", "--format=%H %s"], capture_output=True, text=True).stdout
        hook_commits = [l.split()[0] for l in out.splitlines() if " verif-hook:" in l or l.split(" ", 1)[1].startswith("verif-hook")]
    except Exception:
        pass
    checks = []
    for pid, (level, ref, technique, text) in sorted(CHECKS.items()):
        checks.append({
            "property_id": pid,
            "quick_cmd": f"./check {pid} --tier quick",
            "thorough_cmd": f"./check {pid} --tier thorough",
            "evidence_file": f"/verif/evidence/{pid}.json",
            "replay_cmd_template": f"./check {pid} --replay {{path}}",
            "engine": "witness (rustc + Miri)" if pid == "C19" else "vcheck",
            "level_claimed": {"category": level, "text": text, "design_ref": f"DESIGN.md section {ref}"},
            "level_note": NOTE,
            "technique": technique,
        })
    all_ids = [f"C{i:02d}" for i in range(1, 20)]
    na = [{"property_id": p, "reason": NOT_YET.get(p, "check not built yet (build phase in progress); will be claimed once its exhaustive exploration exists")}
          for p in all_ids if p not in CHECKS]
    m = {
        "version": 1,
        "setup_cmd": "./setup.sh",
        "hooks": {
            "guard": "--cfg desert_verif",
            "enable": "RUSTFLAGS=\"--cfg desert_verif\" (set by ./check; only the C18 schedule explorer installs a hook)",
            "baseline_off_cmd": "cd /repo && cargo test --workspace --no-fail-fast --offline",
            "source_commits": hook_commits,
            "add_only": True,
        },
        "engines": [
            {"name": "vsched", "path": "/verif/sched/vsched", "serves_properties": ["C18"],
             "kind_free_text": "shuttle DFS scheduler over real desert code; derive-emitted statics go through a path crate named lazy_static that re-exports shuttle::lazy_static"},
            {"name": "witness (rustc + Miri)", "path": "/verif/witness", "serves_properties": ["C19"],
             "kind_free_text": "generated safe-only client programs: cargo check verdict, then cargo +nightly miri run; unsafe decode paths swept under Miri"},
            {"name": "vcheck", "path": "/verif/harness/vcheck", "serves_properties": sorted(c for c in CHECKS if c != "C19"),
             "kind_free_text": "explicit bounded enumeration of inputs / programs / histories / faults executed on the real library (path dependency on /repo), compared with an independent reference model (harness/refmodel)"},
        ],
        "checks": checks,
        "not_applicable": na,
        "notes": "All checks rebuild the harness against /repo's working tree. Exit 2 = machinery failure, never a verdict.",
    }
    json.dump(m, open("/verif/MANIFEST.json", "w"), indent=1)
    print("MANIFEST.json:", len(checks), "checks,", len(na), "not claimed")

main()
