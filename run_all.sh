#!/bin/bash
# convenience: run every registered check of a tier and summarise (not part of the interface)
cd "$(dirname "$0")"
TIER=${1:-quick}
shift
IDS=${@:-$(python3 -c "import json; print(' '.join(c['property_id'] for c in json.load(open('MANIFEST.json'))['checks']))")}
for p in $IDS; do
  s=$(date +%s)
  out=$(./check $p --tier $TIER 2>&1); code=$?
  e=$(date +%s)
  echo "== $p exit=$code $((e-s))s :: $(echo "$out" | grep -E '^\[C' | tail -1)"
  echo "$out" | grep -E "^(VIOLATION|KNOWN-FINDING|MACHINERY)" | cut -c1-200 | head -8
done
