#!/usr/bin/env python3
"""Independent inflater for C16: every recorded (content, raw DEFLATE stream) pair must inflate
to the content under Python's zlib (shares nothing with miniz_oxide)."""
import struct, sys, zlib

def main(path):
    data = open(path, 'rb').read()
    pos, ok = 0, 0
    while pos < len(data):
        dl, zl = struct.unpack_from('<QQ', data, pos)
        pos += 16
        d = data[pos:pos + dl]; pos += dl
        z = data[pos:pos + zl]; pos += zl
        o = zlib.decompressobj(-15)
        try:
            got = o.decompress(z) + o.flush()
        except zlib.error as e:
            print(f"MISMATCH zlib error {e} content_len={dl}")
            return 1
        if got != d or o.unused_data:
            print(f"MISMATCH content_len={dl} got_len={len(got)} unused={len(o.unused_data)}")
            return 1
        ok += 1
    print(f"OK {ok}")
    return 0

sys.exit(main(sys.argv[1]))
